"""T-space (C17): the search-space calculators -> Lean DATA (lean/OptunaVerif/Generated/SearchSpaceMethods.lean).

Read with Python `ast` on every run:

  optuna/search_space/intersection.py
      _calculate                                whole body (states list, include_pruned append, the reversed trial loop, states
                                                filter, cursor bookkeeping with its comparisons, unfinished rule, first-trial copy,
                                                intersection comprehension) + the defaults of its parameters
      IntersectionSearchSpace.calculate         study-id guard, the `_calculate` call with its four arguments and two targets,
                                                `or {}`, sorted by name, deepcopy
      IntersectionSearchSpace.__init__          `_cached_trial_number = <int>`, `_search_space = None`, `_study_id = None`
      intersection_search_space                 the functional form
  optuna/search_space/group_decomposed.py
      _SearchSpaceGroup.add_distributions       dist_keys, the split of every group into intersection / difference, the
                                                remainder group, empties dropped
      _SearchSpaceGroup.__init__                `_search_spaces = []`
      _GroupDecomposedSearchSpace.calculate     study-id guard, the two state tuples, the trial loop with its `_get_trials` call
      _GroupDecomposedSearchSpace.__init__      `_study_id = None`, `_search_space = _SearchSpaceGroup()`

Every body becomes a term of the statement language of `Model/SpaceIR.lean`; each primitive stands for ONE whitelisted
source shape (quoted next to its constructor there and matched below, variable names included).  Anything else raises
`Untranslatable`; the method is then emitted as the stub `.raise .unrepresentable` (so its equality theorem in
Props/C17Gen.lean fails as well) and `regenerate` reports chk.broke("translation", ...).
"""
from __future__ import annotations

import ast
import os
from typing import Any

from verif.translators.tbrute import Block, Lit, U, Untranslatable, count_nodes, is_doc, is_none_test, is_src, pure_message, r

INT_REL = "optuna/search_space/intersection.py"
GRP_REL = "optuna/search_space/group_decomposed.py"
TSTATE = {"RUNNING": "running", "COMPLETE": "complete", "PRUNED": "pruned", "FAIL": "fail", "WAITING": "waiting"}
CMP = {ast.Lt: "lt", ast.LtE: "le", ast.Gt: "gt", ast.GtE: "ge", ast.Eq: "eq", ast.NotEq: "ne"}
STUB = "(.raise .unrepresentable)"

INTERSECT = ("search_space = {name: distribution for name, distribution in search_space.items() "
             "if trial.distributions.get(name) == distribution}")
INTERSECT_NAME = ("search_space = {name: distribution for name, distribution in search_space.items() "
                  "if name in trial.distributions}")
SORTED = "search_space = dict(sorted(search_space.items(), key=lambda x: x[0]))"
STORE_NONEMPTY = "self._search_spaces = list(filter(lambda search_space: len(search_space) > 0, next_search_spaces))"


def trial_state(n: ast.AST) -> "str | None":
    """`TrialState.X` / `optuna.trial.TrialState.X`"""
    if isinstance(n, ast.Attribute) and n.attr in TSTATE:
        b = n.value
        if (isinstance(b, ast.Name) and b.id == "TrialState") or is_src(b, "optuna.trial.TrialState"):
            return TSTATE[n.attr]
    return None


def state_list(n: ast.AST) -> "list[str] | None":
    if isinstance(n, (ast.List, ast.Tuple)) and all(trial_state(e) is not None for e in n.elts):
        return [trial_state(e) for e in n.elts]  # type: ignore[misc]
    return None


def int_lit(n: ast.AST) -> "int | None":
    if isinstance(n, ast.Constant) and type(n.value) is int:
        return n.value
    if isinstance(n, ast.UnaryOp) and isinstance(n.op, ast.USub) and isinstance(n.operand, ast.Constant) and type(n.operand.value) is int:
        return -n.operand.value
    return None


class SpaceCtx:
    """translation of one method body"""

    def __init__(self, method: str) -> None:
        self.method = method
        self.locals: set[str] = set()
        self.loops: list[str] = []

    # ---- statements ------------------------------------------------------------------------------------------------
    def block(self, body: list[ast.stmt]) -> Block:
        out = Block()
        for st in body:
            out += self.stmt(st)
        return out

    def stmt(self, st: ast.stmt) -> list[Any]:
        if isinstance(st, ast.Pass) or is_doc(st):
            return []
        if isinstance(st, ast.AnnAssign) and st.value is None and isinstance(st.target, ast.Name):
            return []   # a bare annotation `states_of_interest: tuple[TrialState, ...]`
        if isinstance(st, ast.If):
            return [("ite", self.cond(st.test), self.block(st.body), self.block(st.orelse))]
        if isinstance(st, ast.Continue):
            if not self.loops:
                raise U(st, "continue outside a loop")
            return ["cont"]
        if isinstance(st, ast.Break):
            if not self.loops:
                raise U(st, "break outside a loop")
            return ["brk"]
        if isinstance(st, ast.Raise):
            e = st.exc
            if st.cause is None and isinstance(e, ast.Call) and is_src(e.func, "ValueError") and all(pure_message(a) for a in e.args) and not e.keywords:
                return [("raise", "valueError")]
            raise U(st, "only `raise ValueError(<message>)`")
        if isinstance(st, ast.Return):
            return [("ret", self.ret(st, st.value))]
        if isinstance(st, ast.For):
            if st.orelse:
                raise U(st, "for/else")
            return [self.loop(st)]
        return self.simple(st)

    # ---- expressions -----------------------------------------------------------------------------------------------
    def iexp(self, n: ast.AST) -> Any:
        v = int_lit(n)
        if v is not None:
            return ("lit", Lit(v))
        if isinstance(n, ast.Name) and n.id == "next_cached_trial_number" and "next_cached_trial_number" in self.locals:
            return "next"
        if isinstance(n, ast.Name) and n.id == "cached_trial_number" and self.method == "_calculate":
            return "cached"
        if is_src(n, "trial.number") and self.loops:
            return "number"
        if isinstance(n, ast.BinOp) and type(n.op) in (ast.Add, ast.Sub, ast.Mult):
            op = {ast.Add: "add", ast.Sub: "sub", ast.Mult: "mul"}[type(n.op)]
            return (op, self.iexp(n.left), self.iexp(n.right))
        raise U(n, "integer expression is not in the translated fragment")

    def cond(self, n: ast.AST) -> Any:
        if isinstance(n, ast.UnaryOp) and isinstance(n.op, ast.Not):
            return ("not", self.cond(n.operand))
        if isinstance(n, ast.BoolOp):
            op = "and" if isinstance(n.op, ast.And) else "or"
            out = self.cond(n.values[-1])
            for v in reversed(n.values[:-1]):
                out = (op, self.cond(v), out)
            return out
        m = self.method
        if isinstance(n, ast.Name) and n.id == "include_pruned" and m in ("_calculate", "intersection_search_space"):
            return "includePrunedArg"
        if is_src(n, "self._include_pruned") and m in ("calculate", "gcalculate"):
            return "selfIncludePruned"
        if self.loops and "states_of_interest" in self.locals:
            if is_src(n, "trial.state in states_of_interest"):
                return "stateOfInterest"
            if is_src(n, "trial.state not in states_of_interest"):
                return ("not", "stateOfInterest")
        if self.loops and is_src(n, "trial.state.is_finished()"):
            return "stateFinished"
        if self.loops and isinstance(n, ast.Compare) and len(n.ops) == 1 and isinstance(n.ops[0], (ast.Eq, ast.NotEq)) and is_src(n.left, "trial.state"):
            s = trial_state(n.comparators[0])
            if s is not None:
                c: Any = ("stateIs", s)
                return c if isinstance(n.ops[0], ast.Eq) else ("not", c)
        if m == "_calculate":
            t = is_none_test(n, "search_space")
            if t is not None:
                return "spaceIsNone" if t else ("not", "spaceIsNone")
        if m in ("calculate", "gcalculate"):
            t = is_none_test(n, "self._study_id")
            if t is not None:
                return "studyIdIsNone" if t else ("not", "studyIdIsNone")
            if is_src(n, "self._study_id != study._study_id") or is_src(n, "study._study_id != self._study_id"):
                return "studyIdDiffers"
            if is_src(n, "self._study_id == study._study_id") or is_src(n, "study._study_id == self._study_id"):
                return ("not", "studyIdDiffers")
        if isinstance(n, ast.Compare) and len(n.ops) == 1 and type(n.ops[0]) in CMP:
            return ("cmp", CMP[type(n.ops[0])], self.iexp(n.left), self.iexp(n.comparators[0]))
        raise U(n, "condition is not whitelisted")

    def ret(self, st: ast.Return, v: "ast.AST | None") -> Any:
        m = self.method
        if v is None or (isinstance(v, ast.Constant) and v.value is None):
            return "none"
        if m == "_calculate" and is_src(v, "(search_space, next_cached_trial_number)") and "next_cached_trial_number" in self.locals:
            return "spaceAndNext"
        if m in ("calculate", "intersection_search_space") and "out" in self.locals:
            if is_src(v, "search_space"):
                return "out"
            if is_src(v, "copy.deepcopy(search_space)"):
                return "outDeepcopy"
        if m == "gcalculate" and is_src(v, "copy.deepcopy(self._search_space)"):
            return "groupsDeepcopy"
        raise U(st, "return value is not whitelisted")

    def loop(self, st: ast.For) -> Any:
        m = self.method
        kind: Any = None
        if m == "_calculate" and is_src(st.target, "trial") and not self.loops:
            if is_src(st.iter, "reversed(trials)"):
                kind = "trialsReversed"
            elif is_src(st.iter, "trials"):
                kind = "trialsInOrder"
        if m == "add_distributions" and is_src(st.target, "search_space") and is_src(st.iter, "self._search_spaces") and not self.loops \
                and {"dist_keys", "next_search_spaces"} <= self.locals:
            kind = "groups"
        if m == "gcalculate" and is_src(st.target, "trial") and not self.loops and "states_of_interest" in self.locals:
            for b in (False, True):
                if is_src(st.iter, "study._get_trials(deepcopy=False, states=states_of_interest, use_cache=%s)" % b):
                    kind = ("studyTrialsOfStates", Lit(b))
        if kind is None:
            raise U(st, "loop header is not whitelisted")
        self.loops.append(kind if isinstance(kind, str) else kind[0])
        try:
            return ("loop", kind, self.block(st.body))
        finally:
            self.loops.pop()

    def calc_call(self, c: ast.AST, st: ast.stmt) -> tuple[Any, Any, Any, Any]:
        if not (isinstance(c, ast.Call) and is_src(c.func, "_calculate") and not c.keywords and 1 <= len(c.args) <= 4):
            raise U(st, "must be `_calculate(<trials>[, <include_pruned>[, <search_space>[, <cached_trial_number>]]])`")
        a = list(c.args)
        m = self.method
        if is_src(a[0], "trials") and m == "intersection_search_space":
            ts = "argTrials"
        elif is_src(a[0], "study.get_trials(deepcopy=False)") and m == "calculate":
            ts = "getTrials"
        elif is_src(a[0], "study._get_trials(deepcopy=False, use_cache=False)") and m == "calculate":
            ts = "getTrialsNoCache"
        elif is_src(a[0], "study._get_trials(deepcopy=False, use_cache=True)") and m == "calculate":
            ts = "getTrialsCached"
        else:
            raise U(st, "the trials handed to _calculate are not one of the whitelisted expressions")
        ip: Any = "default"
        if len(a) > 1:
            if is_src(a[1], "include_pruned") and m == "intersection_search_space":
                ip = "argIncludePruned"
            elif is_src(a[1], "self._include_pruned") and m == "calculate":
                ip = "selfIncludePruned"
            elif isinstance(a[1], ast.Constant) and isinstance(a[1].value, bool):
                ip = ("lit", Lit(a[1].value))
            else:
                raise U(st, "include_pruned argument is not whitelisted")
        sp: Any = "default"
        if len(a) > 2:
            if is_src(a[2], "self._search_space") and m == "calculate":
                sp = "selfSpace"
            elif isinstance(a[2], ast.Constant) and a[2].value is None:
                sp = "none"
            else:
                raise U(st, "search_space argument is not whitelisted")
        cs: Any = "default"
        if len(a) > 3:
            if is_src(a[3], "self._cached_trial_number") and m == "calculate":
                cs = "selfCursor"
            elif int_lit(a[3]) is not None:
                cs = ("lit", Lit(int_lit(a[3])))
            else:
                raise U(st, "cached_trial_number argument is not whitelisted")
        return ts, ip, sp, cs

    def simple(self, st: ast.stmt) -> list[Any]:
        m = self.method
        if isinstance(st, (ast.Assign, ast.AnnAssign)) and (isinstance(st, ast.AnnAssign) or len(st.targets) == 1):
            tgt = st.target if isinstance(st, ast.AnnAssign) else st.targets[0]
            val = st.value
            assert val is not None
            # states_of_interest = [...] / (...)
            if is_src(tgt, "states_of_interest") and m in ("_calculate", "gcalculate"):
                sl = state_list(val)
                if sl is None:
                    raise U(st, "states_of_interest must be a list / tuple of TrialState members")
                self.locals.add("states_of_interest")
                return [("act", ("setStates", sl))]
            if m == "_calculate":
                if is_src(tgt, "next_cached_trial_number"):
                    e = self.iexp(val)
                    self.locals.add("next_cached_trial_number")
                    return [("act", ("setNext", e))]
                if self.loops and is_src(st, "search_space = copy.copy(trial.distributions)"):
                    return [("act", "spaceCopyDists")]
                if self.loops and is_src(st, INTERSECT):
                    return [("act", ("spaceIntersect", "getEq"))]
                if self.loops and is_src(st, INTERSECT_NAME):
                    return [("act", ("spaceIntersect", "nameIn"))]
            if m in ("calculate", "gcalculate") and is_src(st, "self._study_id = study._study_id"):
                return [("act", "bindStudyId")]
            if m == "calculate" and is_src(tgt, "(self._search_space, self._cached_trial_number)"):
                ts, ip, sp, cs = self.calc_call(val, st)
                return [("act", ("callCalculate", ts, ip, sp, cs, "selfFields"))]
            if m == "intersection_search_space" and is_src(tgt, "(search_space, _)"):
                ts, ip, sp, cs = self.calc_call(val, st)
                self.locals.add("space")
                return [("act", ("callCalculate", ts, ip, sp, cs, "localSpace"))]
            if m == "calculate" and is_src(st, "search_space = self._search_space or {}"):
                self.locals.add("out")
                return [("act", ("setOut", "selfSpaceOrEmpty"))]
            if m == "intersection_search_space" and is_src(st, "search_space = search_space or {}") and "space" in self.locals:
                self.locals.add("out")
                return [("act", ("setOut", "localSpaceOrEmpty"))]
            if m in ("calculate", "intersection_search_space") and is_src(st, SORTED) and "out" in self.locals:
                return [("act", "sortOut")]
            if m == "add_distributions":
                if not self.loops and is_src(st, "dist_keys = set(distributions.keys())"):
                    self.locals.add("dist_keys")
                    return [("act", ("setDistKeys", "all"))]
                if not self.loops and is_src(st, "dist_keys = {name for name, dist in distributions.items() if not dist.single()}"):
                    self.locals.add("dist_keys")
                    return [("act", ("setDistKeys", "nonSingle"))]
                if not self.loops and is_src(st, "next_search_spaces = []"):
                    self.locals.add("next_search_spaces")
                    return [("act", "initNextSpaces")]
                if self.loops and is_src(st, "keys = set(search_space.keys())"):
                    self.locals.add("keys")
                    return [("act", "setKeys")]
                if is_src(st, STORE_NONEMPTY) and not self.loops and "next_search_spaces" in self.locals:
                    return [("act", "storeNonEmpty")]
            raise U(st, "assignment is not whitelisted")
        if isinstance(st, ast.AugAssign):
            if m == "add_distributions" and self.loops and is_src(st, "dist_keys -= keys") and "keys" in self.locals:
                return [("act", "distKeysMinusKeys")]
            raise U(st, "augmented assignment is not whitelisted")
        if isinstance(st, ast.Expr) and isinstance(st.value, ast.Call):
            c = st.value
            if m == "_calculate" and is_src(c.func, "states_of_interest.append") and len(c.args) == 1 and not c.keywords \
                    and trial_state(c.args[0]) is not None and "states_of_interest" in self.locals and not self.loops:
                return [("act", ("appendState", trial_state(c.args[0])))]
            if m == "gcalculate" and self.loops and is_src(c, "self._search_space.add_distributions(trial.distributions)"):
                return [("act", "groupAdd")]
            if m == "add_distributions" and is_src(c.func, "next_search_spaces.append") and len(c.args) == 1 and not c.keywords \
                    and "next_search_spaces" in self.locals:
                for vsrc, vtag, need_loop in (("search_space", "group", True), ("distributions", "distributions", False)):
                    for sel, stag, need_keys in (("keys & dist_keys", "keysAndDistKeys", True), ("dist_keys & keys", "keysAndDistKeys", True),
                                                 ("keys - dist_keys", "keysMinusDistKeys", True), ("dist_keys", "distKeys", False)):
                        if is_src(c.args[0], "{name: %s[name] for name in %s}" % (vsrc, sel)):
                            if (need_loop and not self.loops) or (need_keys and "keys" not in self.locals):
                                raise U(st, "uses a variable that is not bound here")
                            return [("act", ("appendRestrict", vtag, stag))]
        raise U(st, "statement shape is not whitelisted")


# =====================================================================================================================
def _cls(tree: ast.Module, name: str, rel: str) -> ast.ClassDef:
    c = next((n for n in tree.body if isinstance(n, ast.ClassDef) and n.name == name), None)
    if c is None:
        raise Untranslatable(name, "class not found in %s" % rel)
    return c


def _fn(body: list[ast.stmt], name: str) -> "ast.FunctionDef | None":
    return next((n for n in body if isinstance(n, ast.FunctionDef) and n.name == name), None)


def _self_assign(init: "ast.FunctionDef | None", attr: str) -> "ast.AST | None":
    """the value of the single `self.<attr> [: T] = <value>` of __init__ (None when absent / repeated)"""
    if init is None:
        return None
    vals = []
    for st in ast.walk(init):
        tgt = val = None
        if isinstance(st, ast.AnnAssign):
            tgt, val = st.target, st.value
        elif isinstance(st, ast.Assign) and len(st.targets) == 1:
            tgt, val = st.targets[0], st.value
        if tgt is not None and is_src(tgt, "self.%s" % attr):
            vals.append(val)
    return vals[0] if len(vals) == 1 else None


def _is_none(n: "ast.AST | None") -> bool:
    return isinstance(n, ast.Constant) and n.value is None


def translate(repo: str) -> tuple[str, dict[str, Any], list[dict[str, str]]]:
    problems: list[dict[str, str]] = []
    info: dict[str, Any] = {"methods": {}}
    t_int = ast.parse(open(os.path.join(repo, INT_REL)).read())
    t_grp = ast.parse(open(os.path.join(repo, GRP_REL)).read())
    defs: list[tuple[str, str, str, str]] = []   # (lean name, python name, text, comment)

    def one(fn: "ast.FunctionDef | None", pyname: str, lean: str, tag: str, want_args: list[str], deco: list[str]) -> None:
        try:
            if fn is None:
                raise Untranslatable(pyname, "not found")
            a = fn.args
            if a.vararg or a.kwarg or a.kwonlyargs or a.posonlyargs:
                raise U(fn, "unexpected parameter list")
            if [x.arg for x in a.args] != want_args:
                raise U(fn, "parameters %s, expected %s" % ([x.arg for x in a.args], want_args))
            if [ast.unparse(d) for d in fn.decorator_list] != deco:
                raise U(fn, "decorators %s" % [ast.unparse(d) for d in fn.decorator_list])
            ir = SpaceCtx(tag).block(fn.body)
            info["methods"][pyname] = count_nodes(ir)
            defs.append((lean, pyname, r(ir), "lines %d-%d" % (fn.lineno, fn.end_lineno or fn.lineno)))
        except Untranslatable as e:
            problems.append({"what": pyname, "why": str(e)})
            info["methods"][pyname] = None
            defs.append((lean, pyname, STUB, "UNTRANSLATABLE: %s" % str(e).replace("-/", "- /")))

    f_calc = _fn(t_int.body, "_calculate")
    one(f_calc, "_calculate", "calculate", "_calculate", ["trials", "include_pruned", "search_space", "cached_trial_number"], [])
    # defaults of _calculate's parameters
    dflt = {"includePruned": False, "spaceIsNone": False, "cached": 0}
    try:
        if f_calc is None or len(f_calc.args.defaults) != 3:
            raise Untranslatable("_calculate", "three defaults expected (include_pruned, search_space, cached_trial_number)")
        d0, d1, d2 = f_calc.args.defaults
        if not (isinstance(d0, ast.Constant) and isinstance(d0.value, bool)) or not _is_none(d1) or int_lit(d2) is None:
            raise U(f_calc, "defaults must be <bool>, None, <int>")
        dflt = {"includePruned": d0.value, "spaceIsNone": True, "cached": int_lit(d2)}
    except Untranslatable as e:
        problems.append({"what": "_calculate defaults", "why": str(e)})
    info["defaults"] = dflt
    c_int = _cls(t_int, "IntersectionSearchSpace", INT_REL)
    one(_fn(c_int.body, "calculate"), "IntersectionSearchSpace.calculate", "objCalculate", "calculate", ["self", "study"], [])
    one(_fn(t_int.body, "intersection_search_space"), "intersection_search_space", "functional", "intersection_search_space",
        ["trials", "include_pruned"], [])
    init = _fn(c_int.body, "__init__")
    cur = _self_assign(init, "_cached_trial_number")
    cursor_init = int_lit(cur) if cur is not None else None
    init_space_none = _is_none(_self_assign(init, "_search_space"))
    init_study_none = _is_none(_self_assign(init, "_study_id"))
    if cursor_init is None or not init_space_none or not init_study_none or _self_assign(init, "_include_pruned") is None \
            or not is_src(_self_assign(init, "_include_pruned"), "include_pruned"):  # type: ignore[arg-type]
        problems.append({"what": "IntersectionSearchSpace.__init__", "why": "expected `_cached_trial_number = <int>`, `_search_space = None`, "
                                                                            "`_study_id = None`, `_include_pruned = include_pruned` (once each)"})
    info["init"] = {"cursorInit": cursor_init, "spaceNone": init_space_none, "studyNone": init_study_none}
    # the attributes must not be written anywhere else in the class
    for f in c_int.body:
        if isinstance(f, ast.FunctionDef) and f.name not in ("__init__", "calculate"):
            for st in ast.walk(f):
                if isinstance(st, (ast.Assign, ast.AugAssign, ast.AnnAssign)) and "self._" in ast.unparse(st).split("=")[0]:
                    problems.append({"what": "IntersectionSearchSpace.%s" % f.name, "why": "writes an attribute of the calculator: %s" % ast.unparse(st)[:100]})

    c_grp = _cls(t_grp, "_SearchSpaceGroup", GRP_REL)
    c_gd = _cls(t_grp, "_GroupDecomposedSearchSpace", GRP_REL)
    one(_fn(c_grp.body, "add_distributions"), "_SearchSpaceGroup.add_distributions", "addDistributions", "add_distributions",
        ["self", "distributions"], [])
    one(_fn(c_gd.body, "calculate"), "_GroupDecomposedSearchSpace.calculate", "groupCalculate", "gcalculate", ["self", "study"], [])
    g_init = _self_assign(_fn(c_grp.body, "__init__"), "_search_spaces")
    groups_empty = isinstance(g_init, ast.List) and not g_init.elts
    gd_init = _fn(c_gd.body, "__init__")
    gd_study_none = _is_none(_self_assign(gd_init, "_study_id")) and _self_assign(gd_init, "_search_space") is not None \
        and is_src(_self_assign(gd_init, "_search_space"), "_SearchSpaceGroup()") \
        and _self_assign(gd_init, "_include_pruned") is not None and is_src(_self_assign(gd_init, "_include_pruned"), "include_pruned")  # type: ignore[arg-type]
    if not groups_empty or not gd_study_none:
        problems.append({"what": "group_decomposed __init__", "why": "expected `_search_spaces = []`, `_study_id = None`, `_search_space = _SearchSpaceGroup()`, "
                                                                     "`_include_pruned = include_pruned`"})
    sp_prop = _fn(c_grp.body, "search_spaces")
    if sp_prop is None or [ast.unparse(d) for d in sp_prop.decorator_list] != ["property"] or len([s for s in sp_prop.body if not is_doc(s)]) != 1 \
            or not is_src([s for s in sp_prop.body if not is_doc(s)][0], "return self._search_spaces"):
        problems.append({"what": "_SearchSpaceGroup.search_spaces", "why": "must be the property `return self._search_spaces`"})
        groups_empty = False
    info["groupInit"] = {"groupsEmpty": groups_empty, "studyNone": gd_study_none}

    L = ["import OptunaVerif.Model.SpaceIR",
         "/-! GENERATED by verif/translators/tspace.py from %s and %s on every check run - do not edit. -/" % (INT_REL, GRP_REL),
         "namespace OptunaVerif.Generated.SearchSpaceMethods",
         "open OptunaVerif OptunaVerif.SpaceIR", ""]
    for lean, py, text, comment in defs:
        L.append("/-- `%s` (%s) -/" % (py, comment))
        L.append("def %s : SStmt :=\n  %s\n" % (lean, text))
    L.append("/-- the defaults of `_calculate(trials, include_pruned=…, search_space=…, cached_trial_number=…)` -/")
    L.append("def calcDefaults : CalcDefaults :=\n  { includePruned := %s, spaceIsNone := %s, cached := %s }\n" % (
        r(Lit(dflt["includePruned"])), r(Lit(dflt["spaceIsNone"])), r(Lit(dflt["cached"]))))
    L.append("/-- optuna/search_space/intersection.py -/")
    L.append("def interProg : InterProg :=\n  { calculate := calculate, defaults := calcDefaults, objCalculate := objCalculate, functional := functional,\n"
             "    cursorInit := %s, initSpaceNone := %s, initStudyNone := %s }\n" % (
                 r(Lit(cursor_init if cursor_init is not None else 0)), r(Lit(init_space_none and cursor_init is not None)), r(Lit(init_study_none))))
    L.append("/-- optuna/search_space/group_decomposed.py -/")
    L.append("def groupProg : GroupProg :=\n  { addDistributions := addDistributions, calculate := groupCalculate,\n"
             "    initGroupsEmpty := %s, initStudyNone := %s }\n" % (r(Lit(groups_empty)), r(Lit(gd_study_none))))
    L.append("end OptunaVerif.Generated.SearchSpaceMethods")
    return "\n".join(L) + "\n", info, problems


if __name__ == "__main__":
    import sys

    text, info, problems = translate(sys.argv[1] if len(sys.argv) > 1 else "/repo")
    print(text)
    for p in problems:
        print("-- PROBLEM", p, file=sys.stderr)
