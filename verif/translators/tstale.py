"""T-stale: the staleness test of `RDBStorage._get_stale_trial_ids`, the heartbeat upsert, the sweep loop of
`fail_stale_trials` and the retry arithmetic of `RetryFailedTrialCallback` -> lean/OptunaVerif/Generated/StaleGen.lean.

Sources (read with `ast` on every run):
  optuna/storages/_rdb/storage.py   RDBStorage.__init__ (the two `<= 0` rejections), record_heartbeat, _get_stale_trial_ids
  optuna/storages/_rdb/models.py    TrialHeartbeatModel.heartbeat (column default)
  optuna/storages/_heartbeat.py     fail_stale_trials
  optuna/storages/_callbacks.py     RetryFailedTrialCallback.__call__ / retried_trial_number / retry_history

What is emitted (used by Model/RdbHeartbeat.lean — except the three `record_heartbeat` facts, which are shape checks:
any other timestamp source than the database clock is refused as untranslatable — and the theorems of
Props/C19Rdb.lean are proved against these definitions, so `>` -> `>=`, `timedelta.seconds`, a dropped `.filter(...)`, another state, another unit
of `timedelta(...)`, `max_retry <= len(...)`, another key … change the generated text and break a proof):

  heartbeatIntervalRejected / gracePeriodRejected   the constructor's ValueError tests
  effectiveGrace                                     `grace_period`, or `2 * heartbeat_interval`
  queryFilter                                        conjunction of the `.filter(...)` calls of the query
  rowVerdict                                         the loop body over one row (skip / AssertionError / stale / fresh)
                                                     datetimes and timedeltas are `Int` microseconds; `timedelta(seconds=e)`
                                                     = `e * 1000000`, `.seconds` = `fmod (fdiv x 10^6) 86400`, `.days`, …
  insertUsesDbClock / updateUsesDbClock              where the two branches of record_heartbeat take the timestamp from
  failState, appendOnTrue / appendOnFalse, onUpdateFinished, callbackOver, deepCopies, callbackGuarded   the sweep
  callbackInit, spreadAfterInit, appendKey, appendsNumber, givesUp, retryState, copiesParams, copiesUserAttrs,
  sysAttrsSource, interMode, retriedKey, historyKey  the callback

Whitelisted shapes only; anything else raises `Untranslatable` (reported by `run` as a broken translation).
"""
from __future__ import annotations

import ast
import os
from typing import Any

from verif import core

OUT = os.path.join(core.LEAN_DIR, "OptunaVerif", "Generated", "StaleGen.lean")
STORAGE = "optuna/storages/_rdb/storage.py"
MODELS = "optuna/storages/_rdb/models.py"
HEARTBEAT = "optuna/storages/_heartbeat.py"
CALLBACKS = "optuna/storages/_callbacks.py"

STATES = {"RUNNING": "running", "COMPLETE": "complete", "PRUNED": "pruned", "FAIL": "fail", "WAITING": "waiting"}
TD_UNITS = {"weeks": 7 * 86400 * 10**6, "days": 86400 * 10**6, "hours": 3600 * 10**6, "minutes": 60 * 10**6,
            "seconds": 10**6, "milliseconds": 1000, "microseconds": 1}
TD_POSITIONAL = ["days", "seconds", "microseconds", "milliseconds", "minutes", "hours", "weeks"]
CMP = {ast.Lt: "<", ast.LtE: "≤", ast.Gt: ">", ast.GtE: "≥", ast.Eq: "=", ast.NotEq: "≠"}


class Untranslatable(Exception):
    pass


def u(n: ast.AST) -> str:
    return ast.unparse(n)


def find(body: list[ast.stmt], kind: type, name: str, where: str) -> Any:
    for s in body:
        if isinstance(s, kind) and getattr(s, "name", None) == name:
            return s
    raise Untranslatable("%s: %s not found" % (where, name))


def strip_doc(body: list[ast.stmt]) -> list[ast.stmt]:
    if body and isinstance(body[0], ast.Expr) and isinstance(body[0].value, ast.Constant) and isinstance(body[0].value.value, str):
        return body[1:]
    return body


def state_of(e: ast.expr, where: str) -> str:
    s = u(e)
    for pre in ("TrialState.", "optuna.trial.TrialState.", "trial.TrialState."):
        if s.startswith(pre) and s[len(pre):] in STATES:
            return "TState." + STATES[s[len(pre):]]
    raise Untranslatable("%s: `%s` is not a TrialState member" % (where, s))


# ---- expressions over datetimes / timedeltas / ints ---------------------------------------------------------------
class TimeExpr:
    """types: DT (datetime, Int microseconds), TD (timedelta, Int microseconds), INT, RAT (only from total_seconds())"""

    def __init__(self, env: dict[str, str], where: str) -> None:
        self.env, self.where = env, where

    def bad(self, e: ast.AST, why: str = "") -> Untranslatable:
        return Untranslatable("%s: expression `%s` %s" % (self.where, u(e), why or "is outside the translated fragment"))

    def ex(self, e: ast.expr) -> tuple[str, str]:
        if isinstance(e, ast.Name):
            if e.id in self.env:
                return e.id, self.env[e.id]
            raise self.bad(e, "uses an unknown name")
        if isinstance(e, ast.Constant) and isinstance(e.value, int) and not isinstance(e.value, bool):
            return ("(%d : Int)" % e.value if e.value >= 0 else "(-%d : Int)" % -e.value), "INT"
        if isinstance(e, ast.UnaryOp) and isinstance(e.op, ast.USub):
            a, t = self.ex(e.operand)
            if t in ("INT", "TD"):
                return "(-%s)" % a, t
            raise self.bad(e)
        if isinstance(e, ast.BinOp):
            a, ta = self.ex(e.left)
            b, tb = self.ex(e.right)
            if isinstance(e.op, ast.Sub):
                res = {("DT", "DT"): "TD", ("DT", "TD"): "DT", ("TD", "TD"): "TD", ("INT", "INT"): "INT"}.get((ta, tb))
                if res:
                    return "(%s - %s)" % (a, b), res
            if isinstance(e.op, ast.Add):
                res = {("DT", "TD"): "DT", ("TD", "DT"): "DT", ("TD", "TD"): "TD", ("INT", "INT"): "INT"}.get((ta, tb))
                if res:
                    return "(%s + %s)" % (a, b), res
            if isinstance(e.op, ast.Mult):
                res = {("INT", "INT"): "INT", ("TD", "INT"): "TD", ("INT", "TD"): "TD"}.get((ta, tb))
                if res:
                    return "(%s * %s)" % (a, b), res
            raise self.bad(e, "(%s %s %s)" % (ta, type(e.op).__name__, tb))
        if isinstance(e, ast.Call):
            f = u(e.func)
            if f in ("timedelta", "datetime.timedelta"):
                parts = []
                if len(e.args) > len(TD_POSITIONAL):
                    raise self.bad(e)
                for name, arg in list(zip(TD_POSITIONAL, e.args)) + [(k.arg, k.value) for k in e.keywords]:
                    if name not in TD_UNITS:
                        raise self.bad(e, "has an unknown timedelta argument %r" % name)
                    a, t = self.ex(arg)
                    if t != "INT":
                        raise self.bad(arg, "is not an integer (timedelta argument)")
                    parts.append("(%s * %d)" % (a, TD_UNITS[name]))
                if not parts:
                    return "(0 : Int)", "TD"
                return ("(" + " + ".join(parts) + ")" if len(parts) > 1 else parts[0]), "TD"
            if isinstance(e.func, ast.Attribute) and e.func.attr == "total_seconds" and not e.args and not e.keywords:
                a, t = self.ex(e.func.value)
                if t == "TD":
                    return "((%s : Int) : Rat) / 1000000" % a, "RAT"
            if f == "abs" and len(e.args) == 1:
                a, t = self.ex(e.args[0])
                if t in ("TD", "INT"):
                    return "((Int.natAbs %s : Nat) : Int)" % a, t
            raise self.bad(e)
        if isinstance(e, ast.Attribute):
            a, t = self.ex(e.value)
            if t == "TD" and e.attr == "seconds":
                return "(Int.fmod (Int.fdiv %s 1000000) 86400)" % a, "INT"
            if t == "TD" and e.attr == "days":
                return "(Int.fdiv %s 86400000000)" % a, "INT"
            if t == "TD" and e.attr == "microseconds":
                return "(Int.fmod %s 1000000)" % a, "INT"
            raise self.bad(e)
        raise self.bad(e)

    def test(self, e: ast.expr) -> str:
        if isinstance(e, ast.Compare) and len(e.ops) == 1 and type(e.ops[0]) in CMP:
            a, ta = self.ex(e.left)
            b, tb = self.ex(e.comparators[0])
            if ta == tb and ta in ("TD", "INT", "DT"):
                return "decide (%s %s %s)" % (a, CMP[type(e.ops[0])], b)
            if {ta, tb} <= {"RAT", "INT"}:
                a = a if ta == "RAT" else "((%s : Int) : Rat)" % a
                b = b if tb == "RAT" else "((%s : Int) : Rat)" % b
                return "decide (%s %s %s)" % (a, CMP[type(e.ops[0])], b)
            raise self.bad(e, "compares %s with %s" % (ta, tb))
        raise self.bad(e, "is not a single comparison")


# ---- RDBStorage.__init__ ----------------------------------------------------------------------------------------------
def ctor_rejections(cls: ast.ClassDef) -> list[str]:
    init = find(cls.body, ast.FunctionDef, "__init__", "RDBStorage")
    out = {}
    for s in init.body:
        if not (isinstance(s, ast.If) and len(s.body) == 1 and isinstance(s.body[0], ast.Raise) and not s.orelse):
            continue
        t = s.test
        if not (isinstance(t, ast.BoolOp) and isinstance(t.op, ast.And) and len(t.values) == 2):
            continue
        a, b = t.values
        if not (isinstance(a, ast.Compare) and isinstance(a.ops[0], ast.IsNot) and isinstance(a.left, ast.Name)
                and isinstance(a.comparators[0], ast.Constant) and a.comparators[0].value is None):
            continue
        name = a.left.id
        if name not in ("heartbeat_interval", "grace_period"):
            continue
        if "ValueError" not in u(s.body[0]):
            raise Untranslatable("RDBStorage.__init__: `%s` does not raise ValueError" % u(s)[:80])
        cond = TimeExpr({name: "INT"}, "RDBStorage.__init__").test(b)
        out[name] = cond
    missing = [n for n in ("heartbeat_interval", "grace_period") if n not in out]
    # a validation that is gone is a legitimate code state: the function then rejects nothing
    lines = []
    for name, lean in (("heartbeat_interval", "heartbeatIntervalRejected"), ("grace_period", "gracePeriodRejected")):
        cond = out.get(name, "false")
        lines.append("/-- `RDBStorage.__init__`: `if %s is not None and …: raise ValueError`%s -/" % (name, " (no such test in the source)" if name in missing else ""))
        lines.append("def %s (%s : Option Int) : Bool :=\n  match %s with\n  | none => false\n  | some %s => %s\n" % (lean, name, name, name, cond))
    return lines


# ---- RDBStorage._get_stale_trial_ids ------------------------------------------------------------------------------------
def is_db_now(e: ast.expr) -> bool:
    return u(e) in ("session.execute(sqlalchemy.func.now()).scalar()", "session.execute(sqlalchemy.func.current_timestamp()).scalar()",
                    "session.execute(func.now()).scalar()")


def query_filters(e: ast.expr) -> list[str]:
    """`session.query(models.TrialModel)[.options(...)].filter(A).filter(B).all()` -> Lean conjuncts"""
    where = "_get_stale_trial_ids query"
    if not (isinstance(e, ast.Call) and isinstance(e.func, ast.Attribute) and e.func.attr == "all" and not e.args):
        raise Untranslatable("%s: `%s` does not end in .all()" % (where, u(e)[:80]))
    conj: list[str] = []
    cur = e.func.value
    while True:
        if not (isinstance(cur, ast.Call) and isinstance(cur.func, ast.Attribute)):
            raise Untranslatable("%s: unexpected `%s`" % (where, u(cur)[:80]))
        m = cur.func.attr
        if m == "filter":
            for a in cur.args:
                conj.append(filter_cond(a))
        elif m == "options":
            for a in cur.args:
                if u(a) not in ("sqlalchemy_orm.selectinload(models.TrialModel.heartbeats)", "sqlalchemy_orm.joinedload(models.TrialModel.heartbeats)"):
                    raise Untranslatable("%s: option `%s`" % (where, u(a)))
        elif m == "query":
            if u(cur) != "session.query(models.TrialModel)":
                raise Untranslatable("%s: the query is over `%s`, not the trials table" % (where, u(cur)))
            break
        else:
            raise Untranslatable("%s: query method .%s(...)" % (where, m))
        cur = cur.func.value
    conj.reverse()
    return conj


def filter_cond(a: ast.expr) -> str:
    where = "_get_stale_trial_ids filter"
    if isinstance(a, ast.Compare) and len(a.ops) == 1 and isinstance(a.ops[0], (ast.Eq, ast.NotEq)):
        col, rhs = u(a.left), a.comparators[0]
        neg = isinstance(a.ops[0], ast.NotEq)
        if col == "models.TrialModel.state":
            c = "(state == %s)" % state_of(rhs, where)
        elif col == "models.TrialModel.study_id" and isinstance(rhs, ast.Name) and rhs.id == "study_id":
            c = "(study_id == arg_study_id)"
        else:
            raise Untranslatable("%s: `%s`" % (where, u(a)))
        return "(!%s)" % c if neg else c
    if (isinstance(a, ast.Call) and isinstance(a.func, ast.Attribute) and a.func.attr == "in_" and u(a.func.value) == "models.TrialModel.state"
            and len(a.args) == 1 and isinstance(a.args[0], (ast.List, ast.Tuple))):
        return "([%s].contains state)" % ", ".join(state_of(x, where) for x in a.args[0].elts)
    raise Untranslatable("%s: `%s`" % (where, u(a)))


def stale_query(cls: ast.ClassDef) -> list[str]:
    fn = find(cls.body, ast.FunctionDef, "_get_stale_trial_ids", "RDBStorage")
    where = "_get_stale_trial_ids"
    if [a.arg for a in fn.args.args] != ["self", "study_id"]:
        raise Untranslatable("%s: parameters %s" % (where, [a.arg for a in fn.args.args]))
    body = strip_doc(list(fn.body))
    out: list[str] = []
    # 1. effective grace period
    grace_if = [s for s in body if isinstance(s, ast.If) and "grace_period" in u(s.test)]
    if len(grace_if) != 1:
        raise Untranslatable("%s: expected exactly one `if self.grace_period is None`" % where)
    gi = grace_if[0]
    if u(gi.test) != "self.grace_period is None" or len(gi.body) != 1 or len(gi.orelse) != 1:
        raise Untranslatable("%s: `%s`" % (where, u(gi)[:100]))
    th, el = gi.body[0], gi.orelse[0]
    for s in (th, el):
        if not (isinstance(s, ast.Assign) and len(s.targets) == 1 and u(s.targets[0]) == "grace_period"):
            raise Untranslatable("%s: `%s`" % (where, u(s)))

    class SelfExpr(TimeExpr):
        def ex(self, e: ast.expr) -> tuple[str, str]:
            if isinstance(e, ast.Attribute) and isinstance(e.value, ast.Name) and e.value.id == "self" and e.attr in self.env:
                return e.attr, self.env[e.attr]
            return super().ex(e)

    a, ta = SelfExpr({"heartbeat_interval": "INT"}, where).ex(th.value)
    b, tb = SelfExpr({"heartbeat_interval": "INT", "grace_period": "INT"}, where).ex(el.value)
    if ta != "INT" or tb != "INT":
        raise Untranslatable("%s: grace period is not an integer expression" % where)
    out.append("/-- `%s` -/" % u(gi).replace("\n", " ; "))
    out.append("def effectiveGrace (heartbeat_interval : Int) (grace_period : Option Int) : Int :=\n  match grace_period with\n  | none => %s\n  | some grace_period => %s\n" % (a, b))
    # 2. the session block
    withs = [s for s in body if isinstance(s, ast.With)]
    if len(withs) != 1 or not u(withs[0].items[0].context_expr).startswith("_create_scoped_session(self.scoped_session"):
        raise Untranslatable("%s: expected one `with _create_scoped_session(...)` block" % where)
    env = {"grace_period": "INT"}
    loop = None
    rows_name = None
    filters: list[str] | None = None
    for s in withs[0].body:
        if isinstance(s, ast.Assert):
            continue
        if isinstance(s, ast.Assign) and len(s.targets) == 1 and isinstance(s.targets[0], ast.Name):
            name, val = s.targets[0].id, s.value
            if is_db_now(val):
                env[name] = "DT"
                continue
            if u(val) == "%s.replace(tzinfo=None)" % name and env.get(name) == "DT":
                continue
            if "session.query" in u(val):
                filters = query_filters(val)
                rows_name = name
                continue
            raise Untranslatable("%s: `%s`" % (where, u(s)[:100]))
        if isinstance(s, ast.For):
            loop = s
            continue
        raise Untranslatable("%s: statement `%s`" % (where, u(s)[:100]))
    if loop is None or filters is None or rows_name is None:
        raise Untranslatable("%s: query or loop missing" % where)
    if not (isinstance(loop.target, ast.Name) and u(loop.iter) == rows_name) or loop.orelse:
        raise Untranslatable("%s: loop `for %s in %s`" % (where, u(loop.target), u(loop.iter)))
    now_names = [n for n, t in env.items() if t == "DT"]
    if now_names != ["current_heartbeat"]:
        raise Untranslatable("%s: expected exactly one database-clock reading named current_heartbeat, found %s" % (where, now_names))
    rets = [s for s in body if isinstance(s, ast.Return)]
    if len(rets) != 1 or u(rets[0].value) != "stale_trial_ids":
        raise Untranslatable("%s: return" % where)
    out.append("/-- the `.filter(...)` calls of the query over `trials`: %s -/" % " ∧ ".join(filters))
    out.append("def queryFilter (state : TState) (study_id arg_study_id : Nat) : Bool :=\n  %s\n" % (" && ".join(filters) if filters else "true"))
    out.append(row_verdict(loop, env, where))
    return out


def row_verdict(loop: ast.For, env: dict[str, str], where: str) -> str:
    tv = loop.target.id  # type: ignore[attr-defined]
    hb_list = "%s.heartbeats" % tv

    def length_test(e: ast.expr) -> str | None:
        if (isinstance(e, ast.Compare) and len(e.ops) == 1 and type(e.ops[0]) in CMP and u(e.left) == "len(%s)" % hb_list
                and isinstance(e.comparators[0], ast.Constant) and isinstance(e.comparators[0].value, int)):
            return "decide (heartbeats.length %s %d)" % (CMP[type(e.ops[0])], e.comparators[0].value)
        return None

    def block(stmts: list[ast.stmt], env: dict[str, str], ind: str) -> str:
        if not stmts:
            return ind + "RowVerdict.fresh"
        s, rest = stmts[0], stmts[1:]
        if isinstance(s, ast.If) and len(s.body) == 1 and isinstance(s.body[0], ast.Continue) and not s.orelse:
            c = length_test(s.test)
            if c is None:
                raise Untranslatable("%s: `%s`" % (where, u(s.test)))
            return "%sif %s then RowVerdict.skip else\n%s" % (ind, c, block(rest, env, ind))
        if isinstance(s, ast.Assert):
            c = length_test(s.test)
            if c is None:
                raise Untranslatable("%s: `%s`" % (where, u(s)))
            return "%sif !(%s) then RowVerdict.assertionError else\n%s" % (ind, c, block(rest, env, ind))
        if isinstance(s, ast.Assign) and len(s.targets) == 1 and isinstance(s.targets[0], ast.Name):
            v = s.value
            if (isinstance(v, ast.Attribute) and v.attr == "heartbeat" and isinstance(v.value, ast.Subscript) and u(v.value.value) == hb_list
                    and isinstance(v.value.slice, ast.Constant) and isinstance(v.value.slice.value, int) and v.value.slice.value >= 0):
                name = s.targets[0].id
                return "%smatch heartbeats[%d]? with\n%s| none => RowVerdict.indexError\n%s| some %s =>\n%s" % (
                    ind, v.value.slice.value, ind, ind, name, block(rest, dict(env, **{name: "DT"}), ind + "  "))
            raise Untranslatable("%s: `%s`" % (where, u(s)))
        if isinstance(s, ast.If) and not s.orelse and len(s.body) == 1 and u(s.body[0]) == "stale_trial_ids.append(%s.trial_id)" % tv:
            if rest:
                raise Untranslatable("%s: statements after the append" % where)
            return "%sif %s then RowVerdict.stale else RowVerdict.fresh" % (ind, TimeExpr(env, where).test(s.test))
        raise Untranslatable("%s: loop statement `%s`" % (where, u(s)[:100]))

    doc = " ; ".join(u(s).replace("\n", " ") for s in loop.body)
    return ("/-- one row of the loop (`heartbeats` = the `heartbeat` column of the row's `trial_heartbeats` rows;\n"
            "datetimes and timedeltas are microseconds): `%s` -/\n"
            "def rowVerdict (current_heartbeat : Int) (heartbeats : List Int) (grace_period : Int) : RowVerdict :=\n%s\n"
            % (doc.replace("-/", "- /"), block(list(loop.body), env, "  ")))


# ---- record_heartbeat ------------------------------------------------------------------------------------------------
def record_heartbeat(cls: ast.ClassDef, models_tree: ast.Module) -> list[str]:
    where = "record_heartbeat"
    fn = find(cls.body, ast.FunctionDef, "record_heartbeat", "RDBStorage")
    body = strip_doc(list(fn.body))
    if len(body) != 1 or not isinstance(body[0], ast.With):
        raise Untranslatable("%s: expected one `with` block" % where)
    stmts = body[0].body
    if len(stmts) != 2 or u(stmts[0]) != "heartbeat = models.TrialHeartbeatModel.where_trial_id(trial_id, session)":
        raise Untranslatable("%s: `%s`" % (where, u(stmts[0])[:100]))
    iff = stmts[1]
    if not (isinstance(iff, ast.If) and u(iff.test) == "heartbeat is None"):
        raise Untranslatable("%s: `%s`" % (where, u(iff)[:60]))
    ins = [u(s) for s in iff.body]
    if ins != ["heartbeat = models.TrialHeartbeatModel(trial_id=trial_id)", "session.add(heartbeat)"]:
        raise Untranslatable("%s: insert branch %s" % (where, ins))
    upd = [s for s in iff.orelse if not isinstance(s, ast.Assert)]
    if len(upd) != 2 or u(upd[0]) != "heartbeat = models.TrialHeartbeatModel.where_trial_id(trial_id, session, True)":
        raise Untranslatable("%s: update branch %s" % (where, [u(s) for s in upd]))
    asg = upd[1]
    if not (isinstance(asg, ast.Assign) and u(asg.targets[0]) == "heartbeat.heartbeat"):
        raise Untranslatable("%s: `%s`" % (where, u(asg)))
    if not is_db_now(asg.value):
        raise Untranslatable("%s: the update takes the timestamp from `%s` (only the database clock is modelled)" % (where, u(asg.value)))
    # column default of the insert
    hb = find(models_tree.body, ast.ClassDef, "TrialHeartbeatModel", MODELS)
    col = None
    uniq = False
    for s in hb.body:
        if isinstance(s, ast.Assign) and u(s.targets[0]) == "heartbeat":
            col = s.value
        if isinstance(s, (ast.Assign, ast.AnnAssign)) and "__table_args__" in u(s) and "UniqueConstraint('trial_id')" in u(s):
            uniq = True
    if col is None or not isinstance(col, ast.Call):
        raise Untranslatable("%s: column TrialHeartbeatModel.heartbeat not found" % MODELS)
    kws = {k.arg: u(k.value) for k in col.keywords}
    if kws.get("default") not in ("func.current_timestamp()", "func.now()"):
        raise Untranslatable("%s: default of TrialHeartbeatModel.heartbeat is `%s` (only the database clock is modelled)" % (MODELS, kws.get("default")))
    if kws.get("nullable") != "False":
        raise Untranslatable("%s: TrialHeartbeatModel.heartbeat is nullable" % MODELS)
    return [
        "/-- `record_heartbeat`, no row yet: `session.add(TrialHeartbeatModel(trial_id=trial_id))`, column default `%s` -/\ndef insertUsesDbClock : Bool := true\n" % kws["default"],
        "/-- `record_heartbeat`, row exists: `%s` -/\ndef updateUsesDbClock : Bool := true\n" % u(asg),
        "/-- `UniqueConstraint(\"trial_id\")` on `trial_heartbeats` -/\ndef heartbeatUniquePerTrial : Bool := %s\n" % ("true" if uniq else "false"),
    ]


# ---- fail_stale_trials ---------------------------------------------------------------------------------------------------
def sweep(tree: ast.Module) -> list[str]:
    where = "fail_stale_trials"
    fn = find(tree.body, ast.FunctionDef, "fail_stale_trials", HEARTBEAT)
    body = strip_doc(list(fn.body))
    loops = [s for s in body if isinstance(s, ast.For)]
    if len(loops) != 1 or u(loops[0].iter) != "storage._get_stale_trial_ids(study._study_id)" or u(loops[0].target) != "trial_id":
        raise Untranslatable("%s: expected one top-level loop over storage._get_stale_trial_ids(study._study_id)" % where)
    lb = loops[0].body
    call = "storage.set_trial_state_values(trial_id, state="
    on_true = on_false = False
    on_uf: str = "none"
    fail_state = None

    def the_call(e: ast.expr) -> bool:
        nonlocal fail_state
        if isinstance(e, ast.Call) and u(e.func) == "storage.set_trial_state_values" and len(e.args) == 1 and u(e.args[0]) == "trial_id" \
                and len(e.keywords) == 1 and e.keywords[0].arg == "state":
            fail_state = state_of(e.keywords[0].value, where)
            return True
        return False

    def appends(stmts: list[ast.stmt]) -> bool:
        if [u(s) for s in stmts] == ["failed_trial_ids.append(trial_id)"]:
            return True
        if [u(s) for s in stmts] in ([], ["pass"]):
            return False
        raise Untranslatable("%s: `%s`" % (where, " ; ".join(u(s) for s in stmts)[:100]))

    def attempt(stmts: list[ast.stmt]) -> None:
        nonlocal on_true, on_false
        if len(stmts) == 1 and isinstance(stmts[0], ast.If) and the_call(stmts[0].test):
            on_true = appends(stmts[0].body)
            on_false = appends(stmts[0].orelse)
        elif len(stmts) == 2 and isinstance(stmts[0], ast.Expr) and the_call(stmts[0].value):
            on_true = on_false = appends(stmts[1:])
        elif len(stmts) == 1 and isinstance(stmts[0], ast.Expr) and the_call(stmts[0].value):
            on_true = on_false = False
        else:
            raise Untranslatable("%s: loop body `%s` (expected the %s…) call)" % (where, " ; ".join(u(s) for s in stmts)[:120], call))

    if len(lb) == 1 and isinstance(lb[0], ast.Try):
        t = lb[0]
        if t.orelse or t.finalbody:
            raise Untranslatable("%s: try … else/finally" % where)
        attempt(t.body)
        for h in t.handlers:
            ty = u(h.type) if h.type is not None else "BaseException"
            if ty.endswith("UpdateFinishedTrialError"):
                on_uf = "some true" if appends(h.body) else "some false"
            else:
                raise Untranslatable("%s: handler for %s" % (where, ty))
    else:
        attempt(lb)
    # the callback part
    rest = body[body.index(loops[0]) + 1:]
    if len(rest) != 2 or u(rest[0]) != "failed_trial_callback = storage.get_failed_trial_callback()":
        raise Untranslatable("%s: after the loop: %s" % (where, [u(s)[:60] for s in rest]))
    cb = rest[1]
    guarded = isinstance(cb, ast.If) and u(cb.test) == "failed_trial_callback is not None" and not cb.orelse
    inner = cb.body if guarded else [cb]
    if len(inner) != 1 or not isinstance(inner[0], ast.For) or u(inner[0].target) != "trial_id":
        raise Untranslatable("%s: callback part `%s`" % (where, u(cb)[:100]))
    over = u(inner[0].iter)
    if over == "failed_trial_ids":
        cb_over = "CallbackOver.failed"
    else:
        raise Untranslatable("%s: the callback loop runs over `%s`" % (where, over))
    cbb = [u(s) for s in inner[0].body]
    if cbb == ["failed_trial = copy.deepcopy(storage.get_trial(trial_id))", "failed_trial_callback(study, failed_trial)"]:
        deep = "true"
    elif cbb == ["failed_trial = storage.get_trial(trial_id)", "failed_trial_callback(study, failed_trial)"]:
        deep = "false"
    else:
        raise Untranslatable("%s: callback loop body %s" % (where, cbb))
    # the two early returns
    heads = [u(s) for s in body[: body.index(loops[0])]]
    need = ["storage = study._storage", "if not isinstance(storage, BaseHeartbeat):\n    return", "if not is_heartbeat_enabled(storage):\n    return", "failed_trial_ids = []"]
    if heads != need:
        raise Untranslatable("%s: head of the function is %s" % (where, heads))
    return [
        "/-- the state written by the sweep: `%sTrialState.%s)` -/\ndef failState : TState := %s\n" % (call, str(fail_state).split(".")[-1].upper(), fail_state),
        "/-- is the id appended to `failed_trial_ids` when the call answers `True` / `False` -/\ndef appendOnTrue : Bool := %s\ndef appendOnFalse : Bool := %s\n" % (str(on_true).lower(), str(on_false).lower()),
        "/-- `except UpdateFinishedTrialError`: `none` = not caught (the sweep raises), `some b` = swallowed, id appended iff `b` -/\ndef onUpdateFinished : Option Bool := %s\n" % on_uf,
        "inductive CallbackOver where | failed\nderiving DecidableEq, Repr\n\n/-- `for trial_id in %s:` -/\ndef callbackOver : CallbackOver := %s\n" % (over, cb_over),
        "/-- `if failed_trial_callback is not None:` around the callback loop -/\ndef callbackGuarded : Bool := %s\n" % str(guarded).lower(),
        "/-- `copy.deepcopy(storage.get_trial(trial_id))` -/\ndef deepCopies : Bool := %s\n" % deep,
    ]


# ---- RetryFailedTrialCallback -------------------------------------------------------------------------------------------
def callback(tree: ast.Module) -> list[str]:
    where = "RetryFailedTrialCallback.__call__"
    cls = find(tree.body, ast.ClassDef, "RetryFailedTrialCallback", CALLBACKS)
    init = find(cls.body, ast.FunctionDef, "__init__", "RetryFailedTrialCallback")
    if [u(s) for s in strip_doc(list(init.body))] != ["self._max_retry = max_retry", "self._inherit_intermediate_values = inherit_intermediate_values"]:
        raise Untranslatable("RetryFailedTrialCallback.__init__: %s" % [u(s) for s in init.body])
    fn = find(cls.body, ast.FunctionDef, "__call__", "RetryFailedTrialCallback")
    if [a.arg for a in fn.args.args] != ["self", "study", "trial"]:
        raise Untranslatable("%s: parameters" % where)
    body = strip_doc(list(fn.body))
    if len(body) != 4:
        raise Untranslatable("%s: %d statements (expected: dict, append, max_retry test, add_trial)" % (where, len(body)))
    d, app, test, add = body
    # 1. the dict display
    val = d.value if isinstance(d, (ast.Assign, ast.AnnAssign)) else None
    tgt = d.target if isinstance(d, ast.AnnAssign) else (d.targets[0] if isinstance(d, ast.Assign) else None)
    if not (isinstance(val, ast.Dict) and tgt is not None and u(tgt) == "system_attrs"):
        raise Untranslatable("%s: `%s`" % (where, u(d)[:80]))
    inits = []
    spread_pos = None
    for i, (k, v) in enumerate(zip(val.keys, val.values)):
        if k is None:
            if u(v) != "trial.system_attrs" or spread_pos is not None:
                raise Untranslatable("%s: spread `**%s`" % (where, u(v)))
            spread_pos = i
            continue
        if not (isinstance(k, ast.Constant) and isinstance(k.value, str)):
            raise Untranslatable("%s: dict key `%s`" % (where, u(k)))
        if u(v) == "trial.number":
            inits.append((k.value, "AttrInit.trialNumber"))
        elif u(v) == "[]":
            inits.append((k.value, "AttrInit.emptyList"))
        else:
            raise Untranslatable("%s: initial value `%s` of key %r" % (where, u(v), k.value))
    if spread_pos is None:
        spread = "Spread.absent"
    elif spread_pos == len(val.keys) - 1:
        spread = "Spread.afterInit"
    elif spread_pos == 0:
        spread = "Spread.beforeInit"
    else:
        raise Untranslatable("%s: `**trial.system_attrs` in the middle of the dict display" % where)
    # 2. the append
    if not (isinstance(app, ast.Expr) and isinstance(app.value, ast.Call) and isinstance(app.value.func, ast.Attribute) and app.value.func.attr == "append"
            and isinstance(app.value.func.value, ast.Subscript) and u(app.value.func.value.value) == "system_attrs"
            and isinstance(app.value.func.value.slice, ast.Constant) and len(app.value.args) == 1):
        raise Untranslatable("%s: `%s`" % (where, u(app)))
    app_key = app.value.func.value.slice.value
    if u(app.value.args[0]) != "trial.number":
        raise Untranslatable("%s: appends `%s` (only trial.number is modelled)" % (where, u(app.value.args[0])))
    # 3. the give-up test
    if not (isinstance(test, ast.If) and u(test.test) == "self._max_retry is not None" and not test.orelse and len(test.body) == 1):
        raise Untranslatable("%s: `%s`" % (where, u(test)[:80]))
    inner = test.body[0]
    if not (isinstance(inner, ast.If) and not inner.orelse and len(inner.body) == 1 and isinstance(inner.body[0], ast.Return) and inner.body[0].value is None):
        raise Untranslatable("%s: `%s`" % (where, u(inner)[:80]))

    class RetryExpr(TimeExpr):
        def ex(self, e: ast.expr) -> tuple[str, str]:
            if u(e) == "self._max_retry":
                return "max_retry", "INT"
            if u(e) == "len(system_attrs[%r])" % app_key:
                return "len_history", "INT"
            return super().ex(e)

    gives_up = RetryExpr({}, where).test(inner.test)
    # 4. add_trial(create_trial(...))
    if not (isinstance(add, ast.Expr) and isinstance(add.value, ast.Call) and u(add.value.func) == "study.add_trial" and len(add.value.args) == 1):
        raise Untranslatable("%s: `%s`" % (where, u(add)[:80]))
    ct = add.value.args[0]
    if not (isinstance(ct, ast.Call) and u(ct.func) == "optuna.create_trial" and not ct.args):
        raise Untranslatable("%s: `%s`" % (where, u(ct)[:80]))
    kw = {k.arg: k.value for k in ct.keywords}
    unknown = set(kw) - {"state", "params", "distributions", "user_attrs", "system_attrs", "intermediate_values"}
    if unknown or "state" not in kw:
        raise Untranslatable("%s: create_trial keywords %s" % (where, sorted(kw)))
    state = state_of(kw["state"], where)
    has_p, has_d = "params" in kw, "distributions" in kw
    if has_p != has_d or (has_p and (u(kw["params"]) != "trial.params" or u(kw["distributions"]) != "trial.distributions")):
        raise Untranslatable("%s: params=%s distributions=%s" % (where, u(kw["params"]) if has_p else None, u(kw["distributions"]) if has_d else None))
    if "user_attrs" in kw and u(kw["user_attrs"]) != "trial.user_attrs":
        raise Untranslatable("%s: user_attrs=%s" % (where, u(kw["user_attrs"])))
    sa = u(kw["system_attrs"]) if "system_attrs" in kw else None
    sys_src = {"system_attrs": "SysSource.computed", "trial.system_attrs": "SysSource.failedTrial", None: "SysSource.absent"}.get(sa)
    if sys_src is None:
        raise Untranslatable("%s: system_attrs=%s" % (where, sa))
    iv = u(kw["intermediate_values"]) if "intermediate_values" in kw else None
    inter = {None: "InterMode.never", "None": "InterMode.never", "trial.intermediate_values": "InterMode.always",
             "trial.intermediate_values if self._inherit_intermediate_values else None": "InterMode.ifInherit"}.get(iv)
    if inter is None:
        raise Untranslatable("%s: intermediate_values=%s" % (where, iv))

    # the two static readers
    def getter(name: str) -> tuple[str, str]:
        f = find(cls.body, ast.FunctionDef, name, "RetryFailedTrialCallback")
        b = strip_doc(list(f.body))
        if len(b) == 1 and isinstance(b[0], ast.Return) and isinstance(b[0].value, ast.Call) and u(b[0].value.func) == "trial.system_attrs.get" \
                and len(b[0].value.args) == 2 and isinstance(b[0].value.args[0], ast.Constant):
            return b[0].value.args[0].value, u(b[0].value.args[1])
        raise Untranslatable("RetryFailedTrialCallback.%s: `%s`" % (name, " ; ".join(u(s) for s in b)[:80]))

    rk, rdef = getter("retried_trial_number")
    hk, hdef = getter("retry_history")
    if rdef != "None" or hdef != "[]":
        raise Untranslatable("retried_trial_number / retry_history defaults %s / %s" % (rdef, hdef))
    return [
        "inductive AttrInit where | trialNumber | emptyList\nderiving DecidableEq, Repr\n",
        "inductive Spread where | absent | beforeInit | afterInit\nderiving DecidableEq, Repr\n",
        "inductive SysSource where | absent | failedTrial | computed\nderiving DecidableEq, Repr\n",
        "inductive InterMode where | never | always | ifInherit\nderiving DecidableEq, Repr\n",
        "/-- the literal keys of `%s` -/\ndef callbackInit : List (String × AttrInit) := [%s]\n" % (
            u(val).replace("-/", "- /"), ", ".join('("%s", %s)' % kv for kv in inits)),
        "/-- where `**trial.system_attrs` stands in that dict display -/\ndef spread : Spread := %s\n" % spread,
        "/-- `%s` -/\ndef appendKey : String := \"%s\"\n" % (u(app), app_key),
        "/-- `if self._max_retry is not None: if %s: return` -/\ndef givesUp (max_retry : Option Int) (len_history : Int) : Bool :=\n  match max_retry with\n  | none => false\n  | some max_retry => %s\n" % (u(inner.test), gives_up),
        "/-- `optuna.create_trial(state=…)` -/\ndef retryState : TState := %s\n" % state,
        "/-- `params=trial.params, distributions=trial.distributions` -/\ndef copiesParams : Bool := %s\n" % str(has_p).lower(),
        "/-- `user_attrs=trial.user_attrs` -/\ndef copiesUserAttrs : Bool := %s\n" % str("user_attrs" in kw).lower(),
        "/-- `system_attrs=%s` -/\ndef sysAttrsSource : SysSource := %s\n" % (sa, sys_src),
        "/-- `intermediate_values=%s` -/\ndef interMode : InterMode := %s\n" % (iv, inter),
        "/-- `retried_trial_number`: `trial.system_attrs.get(\"%s\", None)`; `retry_history`: `trial.system_attrs.get(\"%s\", [])` -/\ndef retriedKey : String := \"%s\"\ndef historyKey : String := \"%s\"\n" % (rk, hk, rk, hk),
    ]


HEADER = """/-
  GENERATED by verif/translators/tstale.py from optuna/storages/_rdb/storage.py, _rdb/models.py, _heartbeat.py,
  _callbacks.py — do not edit.  Datetimes and timedeltas are `Int` microseconds (`timedelta(seconds=e)` = `e * 1000000`,
  `td.seconds` = `fmod (fdiv td 10^6) 86400`, `td.days` = `fdiv td (86400 * 10^6)`); `TrialState` members are `TState`.
-/
import OptunaVerif.Model.Basic
set_option linter.unusedVariables false

namespace OptunaVerif.Generated.StaleGen
open OptunaVerif

/-- what the loop of `_get_stale_trial_ids` does with one row of the query -/
inductive RowVerdict where
  | skip | assertionError | indexError | stale | fresh
deriving DecidableEq, Repr
"""


def generate(repo: str) -> tuple[str, list[str]]:
    def tree(rel: str) -> ast.Module:
        return ast.parse(open(os.path.join(repo, rel)).read())

    st = tree(STORAGE)
    rdb = find(st.body, ast.ClassDef, "RDBStorage", STORAGE)
    out = [HEADER]
    out += ctor_rejections(rdb)
    out += stale_query(rdb)
    out += record_heartbeat(rdb, tree(MODELS))
    out += sweep(tree(HEARTBEAT))
    out += callback(tree(CALLBACKS))
    out.append("end OptunaVerif.Generated.StaleGen")
    src = ["%s::RDBStorage.__init__ (heartbeat_interval / grace_period rejections)" % STORAGE, "%s::RDBStorage._get_stale_trial_ids" % STORAGE,
           "%s::RDBStorage.record_heartbeat" % STORAGE, "%s::TrialHeartbeatModel.heartbeat" % MODELS, "%s::fail_stale_trials" % HEARTBEAT,
           "%s::RetryFailedTrialCallback.__call__/retried_trial_number/retry_history" % CALLBACKS]
    return "\n".join(out) + "\n", src


def run(chk: core.Check) -> bool:
    """Regenerate the Lean file; on failure report a broken translation and keep the previous file."""
    try:
        text, src = generate(core.REPO)
    except (Untranslatable, SyntaxError, OSError, StopIteration) as e:
        chk.broke("translation", {"translator": "T-stale", "why": str(e)})
        return False
    changed = core.write_if_changed(OUT, text)
    chk.translated += src
    chk.extra["stalegen_generated_changed"] = changed
    return True


if __name__ == "__main__":
    import sys

    print(generate(sys.argv[1] if len(sys.argv) > 1 else core.REPO)[0])
