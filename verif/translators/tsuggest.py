"""T-suggest (C10): the suggest path of a trial -> Lean DATA (lean/OptunaVerif/Generated/SuggestMethods.lean).

Read with Python `ast` on every run:

  optuna/trial/_trial.py     Trial._suggest, _is_fixed_param, _is_relative_param, _check_distribution, suggest_float,
                             suggest_int, suggest_categorical, suggest_uniform / suggest_loguniform / suggest_discrete_uniform;
                             pinned texts: the three assignments of Trial.__init__ the model's `Ctx` stands for, the
                             `relative_params` property, `_get_latest_trial`
  optuna/trial/_fixed.py     FixedTrial._suggest
  optuna/trial/_frozen.py    FrozenTrial._suggest
  optuna/distributions.py    _get_single_value, check_distribution_compatibility; the keyword defaults of the three
                             distribution constructors

Every body becomes a value of `SuggestIR.Stmt` (Model/SuggestIR.lean): generic control flow (if/elif/else, assert, raise,
return, assignment to a local, `m[k] = v`, expression statements) over EXPRESSIONS built from whitelisted leaves, each of
which stands for ONE source shape (`expr` below; local names are kept as strings).  Anything else raises `Untranslatable`;
the function is then emitted as the stub `(.assert .false_)` (so its equality theorem in Props/C10SuggestGen fails as well)
and `regenerate` reports chk.broke("translation", ...).
"""
from __future__ import annotations

import ast
import os
from typing import Any

ERR = {"ValueError": "valueError", "TypeError": "typeError", "KeyError": "keyError"}
SELF_ATTR = {
    "storage": ".selfStorage", "_trial_id": ".selfTrialId", "study": ".selfStudy", "_cached_frozen_trial": ".selfCache",
    "_fixed_params": "(.tokMap .fixedParams)", "relative_params": "(.tokMap .relativeParams)",
    "relative_search_space": "(.distMap .relativeSpace)", "_params": "(.tokMap .selfParams)",
    "_suggested_params": "(.tokMap .suggestedParams)", "_distributions": "(.distMap .selfDists)",
}
SELF_CALL2 = {"_is_fixed_param": "isFixedParam", "_is_relative_param": "isRelativeParam", "_check_distribution": "checkDistribution",
              "_suggest": "suggest"}
WARN_OF = [("Fixed parameter", "fixedOutOfRange"), ("Inconsistent parameter values", "inconsistent"),
           ("is out of the range of the distribution", "outOfRange")]
PURE_CALLS = {"format", "str", "repr", "len", "_asdict"}
STUB = "(.assert .false_)"


class Untranslatable(Exception):
    def __init__(self, where: str, why: str) -> None:
        super().__init__("%s: %s" % (where, why))
        self.where = where
        self.why = why


def U(node: ast.AST, why: str) -> Untranslatable:
    try:
        txt = ast.unparse(node)
    except Exception:  # noqa: BLE001
        txt = repr(node)
    return Untranslatable("line %s `%s`" % (getattr(node, "lineno", "?"), " ".join(txt.split())[:140]), why)


def is_name(n: ast.AST, name: str) -> bool:
    return isinstance(n, ast.Name) and n.id == name


def is_attr(n: ast.AST, base: str, attr: str) -> bool:
    return isinstance(n, ast.Attribute) and n.attr == attr and is_name(n.value, base)


def lean_str(s: str) -> str:
    return '"' + s.replace("\\", "\\\\").replace('"', '\\"') + '"'


def pure_message(n: ast.AST) -> bool:
    """an expression that only formats values into text (repr/str/len/.format/_asdict, names, attributes, +)"""
    for x in ast.walk(n):
        if isinstance(x, ast.Call):
            f = x.func
            name = f.id if isinstance(f, ast.Name) else f.attr if isinstance(f, ast.Attribute) else None
            if name not in PURE_CALLS:
                return False
        if isinstance(x, (ast.Lambda, ast.NamedExpr, ast.Await, ast.Yield, ast.YieldFrom, ast.ListComp, ast.DictComp,
                          ast.SetComp, ast.GeneratorExp, ast.Subscript)):
            return False
    return True


def const_text(n: ast.AST) -> str:
    """the constant part of a message expression"""
    return "".join(x.value for x in ast.walk(n) if isinstance(x, ast.Constant) and isinstance(x.value, str))


class Ctx:
    """`defaults`: callee -> {keyword: Lean text of the default}; `locals`: names that may be used as locals"""

    def __init__(self, defaults: dict[str, dict[str, str]], params: list[str]) -> None:
        self.defaults = defaults
        self.names = set(params)

    # ---- expressions ------------------------------------------------------------------------------------------------
    def const(self, n: ast.Constant) -> str:
        if n.value is None:
            return ".none_"
        if n.value is True:
            return ".true_"
        if n.value is False:
            return ".false_"
        if isinstance(n.value, int):
            return "(.intLit %s)" % ("(%d)" % n.value if n.value < 0 else "%d" % n.value)
        raise U(n, "constant is not None / True / False / an int")

    def args_by_signature(self, n: ast.Call, callee: str, order: list[str]) -> list[str]:
        """positional + keyword arguments of a call, in the order `order`; omitted ones take the callee's default"""
        if any(isinstance(a, ast.Starred) for a in n.args) or any(kw.arg is None for kw in n.keywords):
            raise U(n, "*args / **kwargs")
        if len(n.args) > len(order):
            raise U(n, "too many positional arguments")
        got: dict[str, str] = {}
        for name, a in zip(order, n.args):
            got[name] = self.expr(a)
        for kw in n.keywords:
            if kw.arg not in order or kw.arg in got:
                raise U(n, "unexpected / repeated keyword %s" % kw.arg)
            got[kw.arg] = self.expr(kw.value)
        out = []
        for name in order:
            if name in got:
                out.append(got[name])
            elif name in self.defaults.get(callee, {}):
                out.append(self.defaults[callee][name])
            else:
                raise U(n, "argument %s of %s is missing and has no literal default" % (name, callee))
        return out

    def expr(self, n: ast.AST) -> str:
        E = self.expr
        if isinstance(n, ast.Constant):
            return self.const(n)
        if isinstance(n, ast.Name):
            if n.id == "self":
                raise U(n, "bare `self`")
            return "(.var %s)" % lean_str(n.id)
        if isinstance(n, ast.Attribute):
            if is_name(n.value, "self"):
                if n.attr in SELF_ATTR:
                    return SELF_ATTR[n.attr]
                raise U(n, "attribute of self is not whitelisted")
            simple = {"params": "paramsOf", "distributions": "distsOf", "__class__": "classOf", "low": "attrLow", "high": "attrHigh",
                      "log": "attrLog"}
            if n.attr in simple:
                return "(.%s %s)" % (simple[n.attr], E(n.value))
            raise U(n, "attribute is not whitelisted")
        if isinstance(n, ast.Subscript):
            if isinstance(n.value, ast.Attribute) and n.value.attr == "choices" and isinstance(n.slice, ast.Constant) and n.slice.value == 0:
                return "(.choice0 %s)" % E(n.value.value)
            return "(.index %s %s)" % (E(n.value), E(n.slice))
        if isinstance(n, ast.UnaryOp) and isinstance(n.op, ast.Not):
            return "(.not %s)" % E(n.operand)
        if isinstance(n, ast.BoolOp):
            op = "and" if isinstance(n.op, ast.And) else "or"
            out = E(n.values[-1])
            for v in reversed(n.values[:-1]):
                out = "(.%s %s %s)" % (op, E(v), out)
            return out
        if isinstance(n, ast.Compare):
            parts = []
            left = n.left
            for op, right in zip(n.ops, n.comparators):
                parts.append(self.compare(n, left, op, right))
                left = right
            out = parts[-1]
            for p in reversed(parts[:-1]):
                out = "(.and %s %s)" % (p, out)
            return out
        if isinstance(n, ast.Call):
            return self.call(n)
        raise U(n, "expression shape is not whitelisted")

    def compare(self, n: ast.AST, a: ast.AST, op: ast.cmpop, b: ast.AST) -> str:
        E = self.expr
        if isinstance(op, (ast.Is, ast.IsNot)):
            if not (isinstance(b, ast.Constant) and b.value is None):
                raise U(n, "`is` is only whitelisted against None")
            c = "(.isNone %s)" % E(a)
            return c if isinstance(op, ast.Is) else "(.not %s)" % c
        table = {ast.In: ("isIn", False), ast.NotIn: ("notIn", False), ast.NotEq: ("ne", False), ast.Eq: ("eq", False),
                 ast.LtE: ("le", False), ast.Lt: ("lt", False), ast.GtE: ("le", True), ast.Gt: ("lt", True)}
        for k, (ctor, swap) in table.items():
            if isinstance(op, k):
                x, y = (E(b), E(a)) if swap else (E(a), E(b))
                return "(.%s %s %s)" % (ctor, x, y)
        raise U(n, "comparison operator is not whitelisted")

    def call(self, n: ast.Call) -> str:
        E = self.expr
        f = n.func
        plain = not n.keywords and not any(isinstance(a, ast.Starred) for a in n.args)
        if isinstance(f, ast.Name):
            if f.id == "int" and plain and len(n.args) == 1:
                return "(.intOf %s)" % E(n.args[0])
            if f.id == "isinstance" and plain and len(n.args) == 2:
                t = n.args[1]
                names = sorted(e.id for e in t.elts if isinstance(e, ast.Name)) if isinstance(t, ast.Tuple) else [t.id] if isinstance(t, ast.Name) else []
                if names == ["FloatDistribution", "IntDistribution"] and (not isinstance(t, ast.Tuple) or len(t.elts) == 2):
                    return "(.isNumeric %s)" % E(n.args[0])
                if names == ["CategoricalDistribution"] and (not isinstance(t, ast.Tuple) or len(t.elts) == 1):
                    return "(.isCat %s)" % E(n.args[0])
                raise U(n, "isinstance against something else than (FloatDistribution, IntDistribution) / CategoricalDistribution")
            if f.id == "FloatDistribution":
                return "(.mkFloat %s)" % " ".join(self.args_by_signature(n, "FloatDistribution", ["low", "high", "log", "step"]))
            if f.id == "IntDistribution":
                return "(.mkInt %s)" % " ".join(self.args_by_signature(n, "IntDistribution", ["low", "high", "log", "step"]))
            if f.id == "CategoricalDistribution":
                return "(.mkCat %s)" % " ".join(self.args_by_signature(n, "CategoricalDistribution", ["choices"]))
            raise U(n, "call of a name that is not whitelisted")
        if not isinstance(f, ast.Attribute):
            raise U(n, "call shape")
        # self.<method>(...)
        if is_name(f.value, "self"):
            if f.attr == "_get_latest_trial" and plain and not n.args:
                return ".latestTrial"
            if f.attr in SELF_CALL2 and plain and len(n.args) == 2:
                return "(.call2 .%s %s %s)" % (SELF_CALL2[f.attr], E(n.args[0]), E(n.args[1]))
            if f.attr == "suggest_float":
                return "(.callSuggestFloat %s)" % " ".join(self.args_by_signature(n, "suggest_float", ["name", "low", "high", "step", "log"]))
            raise U(n, "method of self is not whitelisted")
        # module functions
        if is_name(f.value, "distributions") and plain:
            if f.attr == "_get_single_value" and len(n.args) == 1:
                return "(.call1 .getSingleValue %s)" % E(n.args[0])
            if f.attr == "check_distribution_compatibility" and len(n.args) == 2:
                return "(.call2 .checkCompat %s %s)" % (E(n.args[0]), E(n.args[1]))
        if is_name(f.value, "pruners") and f.attr == "_filter_study" and plain and len(n.args) == 2:
            return "(.filterStudy %s %s)" % (E(n.args[0]), E(n.args[1]))
        # self.study.sampler.sample_independent(study, trial, name, distribution)
        if f.attr == "sample_independent" and plain and len(n.args) == 4 and isinstance(f.value, ast.Attribute) and f.value.attr == "sampler" \
                and is_attr(f.value.value, "self", "study"):
            return "(.sampleIndependent %s)" % " ".join(E(a) for a in n.args)
        # methods of a distribution / a dict held by an expression
        if plain:
            if f.attr == "to_internal_repr" and len(n.args) == 1:
                return "(.toInternal %s %s)" % (E(f.value), E(n.args[0]))
            if f.attr == "_contains" and len(n.args) == 1:
                return "(.contains %s %s)" % (E(f.value), E(n.args[0]))
            if f.attr == "single" and not n.args:
                return "(.single %s)" % E(f.value)
            if f.attr == "get" and len(n.args) in (1, 2):
                return "(.getD %s %s %s)" % (E(f.value), E(n.args[0]), E(n.args[1]) if len(n.args) == 2 else ".none_")
        raise U(n, "call is not whitelisted")

    # ---- statements -------------------------------------------------------------------------------------------------
    def block(self, body: list[ast.stmt]) -> list[str]:
        out: list[str] = []
        for st in body:
            out += self.stmt(st)
        return out

    def stmt(self, st: ast.stmt) -> list[str]:
        if isinstance(st, ast.Pass):
            return []
        if isinstance(st, ast.Expr) and isinstance(st.value, ast.Constant) and isinstance(st.value.value, str):
            return []  # docstring
        if isinstance(st, ast.AnnAssign) and st.value is None:
            return []
        if isinstance(st, ast.Return):
            return ["(.ret %s)" % (".none_" if st.value is None else self.expr(st.value))]
        if isinstance(st, ast.Raise):
            e = st.exc
            if st.cause is None and isinstance(e, ast.Call) and isinstance(e.func, ast.Name) and e.func.id in ERR and not e.keywords \
                    and all(pure_message(a) for a in e.args):
                return ["(.raise .%s)" % ERR[e.func.id]]
            raise U(st, "only `raise ValueError|TypeError|KeyError(<message>)`")
        if isinstance(st, ast.Assert):
            if st.msg is not None and not pure_message(st.msg):
                raise U(st, "assert message")
            return ["(.assert %s)" % self.expr(st.test)]
        if isinstance(st, ast.If):
            return ["(.ite %s %s %s)" % (self.expr(st.test), r_block(self.block(st.body)), r_block(self.block(st.orelse)))]
        if isinstance(st, (ast.Assign, ast.AnnAssign)):
            if isinstance(st, ast.Assign):
                if len(st.targets) != 1:
                    raise U(st, "multiple assignment targets")
                tgt, v = st.targets[0], st.value
            else:
                tgt, v = st.target, st.value
            if isinstance(tgt, ast.Name):
                if tgt.id == "self":
                    raise U(st, "assignment to self")
                return ["(.assign %s %s)" % (lean_str(tgt.id), self.expr(v))]
            if isinstance(tgt, ast.Subscript):
                return ["(.setItem %s %s %s)" % (self.expr(tgt.value), self.expr(tgt.slice), self.expr(v))]
            raise U(st, "assignment target is neither a local nor `m[k]`")
        if isinstance(st, ast.Expr) and isinstance(st.value, ast.Call):
            c = st.value
            f = c.func
            if isinstance(f, ast.Attribute) and is_name(f.value, "warnings") and f.attr == "warn":
                if not c.args or len(c.args) > 2 or any(kw.arg not in ("stacklevel", "category") for kw in c.keywords) or not pure_message(c.args[0]):
                    raise U(st, "warnings.warn(<message>[, <category>])")
                txt = const_text(c.args[0])
                kind = next((w for pat, w in WARN_OF if pat in txt), "other")
                return ["(.warn .%s)" % kind]
            if isinstance(f, ast.Attribute) and f.attr == "set_trial_param" and not c.keywords and len(c.args) == 4:
                return ["(.setTrialParam %s %s)" % (self.expr(f.value), " ".join(self.expr(a) for a in c.args))]
            return ["(.eval %s)" % self.expr(c)]
        raise U(st, "statement shape is not whitelisted")


def r_block(b: list[str]) -> str:
    if not b:
        return ".skip"
    if len(b) == 1:
        return b[0]
    return "(block [" + ", ".join(b) + "])"


def pretty(b: list[str]) -> str:
    if not b:
        return ".skip"
    if len(b) == 1:
        return b[0]
    return "(block [\n    " + ",\n    ".join(b) + "])"


# ---- whole file -------------------------------------------------------------------------------------------------------
def find_class(tree: ast.Module, cls: str) -> ast.ClassDef:
    c = next((n for n in tree.body if isinstance(n, ast.ClassDef) and n.name == cls), None)
    if c is None:
        raise Untranslatable(cls, "class not found")
    return c


def deco_name(d: ast.AST) -> str:
    f = d.func if isinstance(d, ast.Call) else d
    return f.id if isinstance(f, ast.Name) else f.attr if isinstance(f, ast.Attribute) else "?"


def find_func(tree: ast.Module, name: str, cls: str | None) -> ast.FunctionDef:
    body: list[ast.stmt] = find_class(tree, cls).body if cls is not None else tree.body
    cands = [n for n in body if isinstance(n, ast.FunctionDef) and n.name == name
             and not any(deco_name(d) == "overload" for d in n.decorator_list)]
    if len(cands) != 1:
        raise Untranslatable(name, "function not found (or defined %d times)" % len(cands))
    return cands[0]


def signature(fn: ast.FunctionDef) -> tuple[list[str], dict[str, ast.AST]]:
    a = fn.args
    if a.vararg or a.kwarg or a.posonlyargs:
        raise U(fn, "unexpected parameter list")
    names = [x.arg for x in a.args] + [x.arg for x in a.kwonlyargs]
    defaults: dict[str, ast.AST] = {}
    for nm, d in zip([x.arg for x in a.args][len(a.args) - len(a.defaults):], a.defaults):
        defaults[nm] = d
    for x, d in zip(a.kwonlyargs, a.kw_defaults):
        if d is not None:
            defaults[x.arg] = d
    return names, defaults


TRIAL = "optuna/trial/_trial.py"
# (python name, file, class, lean name, parameters, decorators allowed)
FUNCS = [
    ("_get_single_value", "optuna/distributions.py", None, "getSingleValue", ["distribution"], []),
    ("check_distribution_compatibility", "optuna/distributions.py", None, "checkCompat", ["dist_old", "dist_new"], []),
    ("_is_fixed_param", TRIAL, "Trial", "isFixedParam", ["self", "name", "distribution"], []),
    ("_is_relative_param", TRIAL, "Trial", "isRelativeParam", ["self", "name", "distribution"], []),
    ("_check_distribution", TRIAL, "Trial", "checkDistribution", ["self", "name", "distribution"], []),
    ("_suggest", TRIAL, "Trial", "suggest", ["self", "name", "distribution"], []),
    ("suggest_float", TRIAL, "Trial", "suggestFloat", ["self", "name", "low", "high", "step", "log"], []),
    ("suggest_int", TRIAL, "Trial", "suggestInt", ["self", "name", "low", "high", "step", "log"], ["convert_positional_args"]),
    ("suggest_categorical", TRIAL, "Trial", "suggestCategorical", ["self", "name", "choices"], []),
    ("suggest_uniform", TRIAL, "Trial", "suggestUniform", ["self", "name", "low", "high"], ["deprecated_func"]),
    ("suggest_loguniform", TRIAL, "Trial", "suggestLogUniform", ["self", "name", "low", "high"], ["deprecated_func"]),
    ("suggest_discrete_uniform", TRIAL, "Trial", "suggestDiscreteUniform", ["self", "name", "low", "high", "q"], ["deprecated_func"]),
    ("_suggest", "optuna/trial/_fixed.py", "FixedTrial", "fixedSuggest", ["self", "name", "distribution"], []),
    ("_suggest", "optuna/trial/_frozen.py", "FrozenTrial", "frozenSuggest", ["self", "name", "distribution"], []),
]
CTOR = [("FloatDistribution", ["self", "low", "high", "log", "step"]), ("IntDistribution", ["self", "low", "high", "log", "step"]),
        ("CategoricalDistribution", ["self", "choices"])]


def one_line(n: ast.AST) -> str:
    return " ".join(ast.unparse(n).split())


def pins_of(tree: ast.Module) -> list[tuple[str, str]]:
    """source texts the model's `Ctx` / aliasing stands for (compared literally by `pinned_sources`)"""
    cls = find_class(tree, "Trial")
    out: list[tuple[str, str]] = []
    init = next((n for n in cls.body if isinstance(n, ast.FunctionDef) and n.name == "__init__"), None)
    wanted = ["self._fixed_params", "self.relative_search_space", "self._relative_params", "self._cached_frozen_trial", "self.storage"]
    found: dict[str, list[str]] = {w: [] for w in wanted}
    if init is not None:
        for st in ast.walk(init):
            if isinstance(st, (ast.Assign, ast.AnnAssign)) and st.value is not None:
                tgts = st.targets if isinstance(st, ast.Assign) else [st.target]
                for t in tgts:
                    k = one_line(t)
                    if k in found:
                        found[k].append(one_line(st.value))
    for w in wanted:
        out.append(("Trial.__init__: %s =" % w, " | ".join(found[w])))
    for name in ("relative_params", "_get_latest_trial"):
        fn = next((n for n in cls.body if isinstance(n, ast.FunctionDef) and n.name == name), None)
        body = [] if fn is None else [s for s in fn.body if not (isinstance(s, ast.Expr) and isinstance(s.value, ast.Constant))
                                      and not isinstance(s, ast.Pass)]
        out.append(("Trial.%s" % name, " ; ".join(one_line(s) for s in body)))
    # every other place of class Trial that writes the dictionaries / attributes the model's state stands for
    dicts = ("self._cached_frozen_trial.params", "self._cached_frozen_trial.distributions", "self._fixed_params", "self._relative_params",
             "self.relative_params", "self.relative_search_space")
    attrs = ("self._fixed_params", "self._relative_params", "self.relative_search_space", "self._cached_frozen_trial", "self.storage",
             "self._trial_id")
    writers = []
    for fn in cls.body:
        if not isinstance(fn, ast.FunctionDef) or fn.name in ("_suggest", "__init__", "relative_params"):
            continue
        for x in ast.walk(fn):
            hit = None
            if isinstance(x, ast.Subscript) and isinstance(x.ctx, (ast.Store, ast.Del)) and one_line(x.value) in dicts:
                hit = one_line(x)
            elif isinstance(x, ast.Attribute) and isinstance(x.ctx, (ast.Store, ast.Del)) and one_line(x) in attrs:
                hit = one_line(x)
            elif isinstance(x, ast.Call) and isinstance(x.func, ast.Attribute):
                if x.func.attr == "set_trial_param":
                    hit = "set_trial_param"
                elif one_line(x.func.value) in dicts and x.func.attr in ("update", "pop", "clear", "setdefault", "popitem", "__setitem__", "__delitem__"):
                    hit = one_line(x.func)
            if hit is not None:
                writers.append("%s: %s" % (fn.name, hit))
    out.append(("Trial: other methods that write params / distributions / fixed / relative params", ", ".join(writers)))
    return out


def translate(repo: str) -> tuple[str, dict[str, Any], list[dict[str, str]]]:
    """-> (Lean text, info, problems)"""
    problems: list[dict[str, str]] = []
    info: dict[str, Any] = {"functions": {}, "defaults": {}, "pins": []}
    trees: dict[str, ast.Module] = {}

    def tree_of(rel: str) -> ast.Module:
        if rel not in trees:
            trees[rel] = ast.parse(open(os.path.join(repo, rel)).read())
        return trees[rel]

    # keyword defaults of the callees a call site may omit
    defaults: dict[str, dict[str, str]] = {}
    dummy = Ctx({}, [])
    for cname, want in CTOR:
        try:
            init = find_func(tree_of("optuna/distributions.py"), "__init__", cname)
            names, dfl = signature(init)
            if names != want:
                raise U(init, "parameters %s, expected %s" % (names, want))
            defaults[cname] = {k: dummy.expr(v) for k, v in dfl.items()}
        except (Untranslatable, OSError, SyntaxError) as e:
            problems.append({"what": cname + ".__init__ signature", "why": str(e)})
    for fname in ("suggest_float", "suggest_int"):
        try:
            names, dfl = signature(find_func(tree_of(TRIAL), fname, "Trial"))
            defaults[fname] = {k: dummy.expr(v) for k, v in dfl.items()}
        except (Untranslatable, OSError, SyntaxError) as e:
            problems.append({"what": fname + " signature", "why": str(e)})
    info["defaults"] = defaults

    defs: list[tuple[str, str, str, str]] = []
    for pyname, rel, cls, lean, want, decos in FUNCS:
        label = "%s%s" % (cls + "." if cls else "", pyname)
        try:
            fn = find_func(tree_of(rel), pyname, cls)
            names, _ = signature(fn)
            if names != want:
                raise U(fn, "parameters %s, expected %s" % (names, want))
            pre: list[str] = []
            for d in fn.decorator_list:
                dn = deco_name(d)
                if dn not in decos:
                    raise U(fn, "decorator %s" % dn)
                if dn == "deprecated_func":
                    pre.append("(.warn .deprecated)")
            ctx = Ctx(defaults, want)
            ir = pre + ctx.block(list(fn.body))
            info["functions"][label] = len(ir)
            defs.append((lean, label, pretty(ir), "%s lines %d-%d" % (rel, fn.lineno, fn.end_lineno or fn.lineno)))
        except (Untranslatable, OSError, SyntaxError) as e:
            problems.append({"what": label, "why": str(e)})
            info["functions"][label] = None
            defs.append((lean, label, STUB, "UNTRANSLATABLE: %s" % str(e).replace("-/", "- /")))
    try:
        pins = pins_of(tree_of(TRIAL))
    except (Untranslatable, OSError, SyntaxError) as e:
        problems.append({"what": "pinned texts of optuna/trial/_trial.py", "why": str(e)})
        pins = []
    info["pins"] = pins

    L = ["import OptunaVerif.Model.SuggestIR",
         "/-! GENERATED by verif/translators/tsuggest.py from optuna/trial/_trial.py, _fixed.py, _frozen.py, optuna/distributions.py on every check run - do not edit. -/",
         "namespace OptunaVerif.Generated.SuggestMethods",
         "open OptunaVerif OptunaVerif.SuggestIR", ""]
    for lean, label, text, comment in defs:
        L.append("/-- `%s` (%s) -/" % (label, comment))
        L.append("def %s : Stmt :=\n  %s\n" % (lean, text))
    L.append("/-- the translated bodies -/")
    L.append("def program : Program where")
    for lean, *_ in defs:
        L.append("  %s := %s" % (lean, lean))
    L.append("")
    L.append("/-- keyword defaults of `Trial.suggest_float` / `suggest_int` and of the distribution constructors -/")
    rows = []
    for callee in ("suggest_float", "suggest_int", "FloatDistribution", "IntDistribution", "CategoricalDistribution"):
        for k, v in sorted(defaults.get(callee, {}).items()):
            rows.append('(%s, %s, %s)' % (lean_str(callee), lean_str(k), v))
    L.append("def defaults : List (String × String × Expr) :=\n  [%s]\n" % ",\n   ".join(rows))
    L.append("/-- source texts the model's context stands for -/")
    L.append("def pins : List (String × String) :=\n  [%s]\n" % ",\n   ".join("(%s, %s)" % (lean_str(a), lean_str(b)) for a, b in pins))
    L.append("end OptunaVerif.Generated.SuggestMethods")
    return "\n".join(L) + "\n", info, problems


if __name__ == "__main__":
    import sys

    text, info, problems = translate(sys.argv[1] if len(sys.argv) > 1 else "/repo")
    print(text)
    for p in problems:
        print("-- PROBLEM", p, file=sys.stderr)
