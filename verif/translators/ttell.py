"""T-tell (C02, C04): the trial life-cycle functions -> Lean DATA (lean/OptunaVerif/Generated/TellMethods.lean).

Read with Python `ast` on every run:

  optuna/study/_tell.py      _check_state_and_values, _check_values_are_feasible, _tell_with_warning, _get_frozen_trial
  optuna/study/_optimize.py  _run_trial, _optimize_sequential (frame + the body of its `while True:` loop)
  optuna/study/study.py      Study.ask (from `trial_id = self._pop_waiting_trial_id()` on), Study._pop_waiting_trial_id, Study.tell
  optuna/exceptions.py       the bases of TrialPruned / UpdateFinishedTrialError / OptunaError (the class table of
                             Model/TellIR.lean `Exn.mro`)

Every body becomes a value of `TellIR.Stmt` (Model/TellIR.lean): generic control flow (if/elif/else, assert, raise,
bare raise, return, break/continue, try/except/else/finally with the classes named, for over a list, `while True`, `with`
as enter/try/finally/exit) over PRIMITIVES, each of which stands for ONE whitelisted source shape (tables below, matched
on the `ast` dump, variable names included).  Anything else raises `Untranslatable`; the function is then emitted as the
stub `(.raise .runtimeError)` (so its equality theorem in Props/C02Gen / C04Gen fails as well) and `regenerate` reports
chk.broke("translation", ...).
"""
from __future__ import annotations

import ast
import os
from typing import Any

TSTATE = {"RUNNING": "running", "COMPLETE": "complete", "PRUNED": "pruned", "FAIL": "fail", "WAITING": "waiting"}
CLS = {"BaseException": "baseException", "Exception": "exception", "KeyboardInterrupt": "keyboardInterrupt",
       "OptunaError": "optunaError", "TrialPruned": "trialPruned", "UpdateFinishedTrialError": "updateFinishedTrialError",
       "ValueError": "valueError", "TypeError": "typeError", "OverflowError": "overflowError",
       "ArithmeticError": "arithmeticError", "KeyError": "keyError", "LookupError": "lookupError",
       "RuntimeError": "runtimeError", "AssertionError": "assertionError", "UnboundLocalError": "unboundLocalError",
       "NameError": "nameError"}
WHY_OF = [("could not be cast to float", "cast"), ("is not acceptable", "nan"),
          ("did not match the number of the objectives", "count")]


class Untranslatable(Exception):
    def __init__(self, where: str, why: str) -> None:
        super().__init__("%s: %s" % (where, why))
        self.where = where
        self.why = why


def U(node: ast.AST, why: str) -> Untranslatable:
    try:
        txt = ast.unparse(node)
    except Exception:  # noqa: BLE001
        txt = repr(node)
    return Untranslatable("line %s `%s`" % (getattr(node, "lineno", "?"), " ".join(txt.split())[:140]), why)


def norm(n: "ast.AST | str") -> str:
    if isinstance(n, str):
        n = ast.parse(n).body[0]
    if isinstance(n, ast.Expr):
        n = n.value
    return ast.dump(n, annotate_fields=False, include_attributes=False).replace("Store()", "Load()")


def is_src(n: ast.AST, text: str) -> bool:
    return norm(n) == norm(text)


# ---- primitive conditions: exact source shape -> Prim ------------------------------------------------------------
# `X is None` / `X is not None`
NONE_TESTS = {
    "state": "stateIsNone", "values": "valuesIsNone", "value_or_values": "vovIsNone",
    "values_conversion_failure_message": "msgIsNone", "warning_message": "warnMsgIsNone", "last_step": "lastStepIsNone",
    "_check_values_are_feasible(study, [last_intermediate_value])": "lastFeasibleIsNone",
    "func_err": "funcErrIsNone", "n_trials": "nTrialsIsNone", "timeout": "timeoutIsNone", "time_start": "timeStartIsNone",
    "callbacks": "callbacksIsNone", "progress_bar": "progressBarIsNone", "trial_id": "trialIdIsNone",
}
# `<lhs> == TrialState.S` / `!=`
STATE_EQ = {"state": "stateIs", "frozen_trial.state": "frozenStateIs"}
EXACT_COND = {
    "skip_if_finished": "skipIfFinished", "suppress_warning": "suppressWarning",
    "frozen_trial.state.is_finished()": "frozenFinished",
    "isinstance(value_or_values, Sequence)": "vovIsSequence",
    "math.isnan(float(v))": "floatVIsNan",
    "len(study.directions) != len(values)": "countMismatch", "len(values) != len(study.directions)": "countMismatch",
    "is_heartbeat_enabled(study._storage)": "heartbeatEnabled",
    "isinstance(func_err, catch)": "funcErrIsCatch",
    "STUDY_TELL_WARNING_KEY in frozen_trial.system_attrs": "warnKeyInFrozen",
    "study._stop_flag": "stopFlag", "i_trial >= n_trials": "trialCountReached", "n_trials <= i_trial": "trialCountReached",
    "elapsed_seconds >= timeout": "elapsedReached", "timeout <= elapsed_seconds": "elapsedReached",
    "gc_after_trial": "gcAfterTrial", "reseed_sampler_rng": "reseedSamplerRng",
    "self._storage.set_trial_state_values(trial._trial_id, state=TrialState.RUNNING)": "casAnswer",
    "self._storage.set_trial_state_values(trial._trial_id, TrialState.RUNNING)": "casAnswer",
    "isinstance(trial, optuna.Trial)": "trialIsTrial", "isinstance(trial, int)": "trialIsInt",
}
# ---- primitive actions ------------------------------------------------------------------------------------------------
# assignments `<target> = <value>` (also annotated ones)
ASSIGN = {
    "study._thread_local.cached_all_trials = None": "invalidateCache",
    "self._thread_local.cached_all_trials = None": "invalidateCache",
    "frozen_trial = _get_frozen_trial(study, trial)": "getFrozenTrial",
    "values = None": "valuesNone", "values = value_or_values": "valuesFromVov", "values = [value_or_values]": "valuesWrapVov",
    "warning_message = None": "warnMsgNone",
    "values_conversion_failure_message = _check_values_are_feasible(study, values)": "callFeasibleValues",
    "last_step = frozen_trial.last_step": "loadLastStep",
    "last_intermediate_value = frozen_trial.intermediate_values[last_step]": "loadLastIntermediate",
    "values = [last_intermediate_value]": "valuesLastIntermediate",
    "values_conversion_failure_message = 'The value None could not be cast to float.'": "msgNoneValue",
    "state = None": ("setState", None),
    "warning_message = values_conversion_failure_message": "warnMsgFromMsg",
    "values = [float(value) for value in values]": "castValues",
    "study = pruners._filter_study(study, frozen_trial)": "filterStudy",
    "frozen_trial = copy.deepcopy(study._storage.get_trial(frozen_trial._trial_id))": "rereadFrozenTrial",
    "frozen_trial._system_attrs[STUDY_TELL_WARNING_KEY] = warning_message": "setWarnKey",
    "trial = study.ask()": "callAsk", "value_or_values = None": "vovNone", "func_err = None": "funcErrNone",
    "func_err_fail_exc_info = None": "excInfoNone", "func_err_fail_exc_info = sys.exc_info()": "excInfoCapture",
    "value_or_values = func(trial)": "callObjective",
    "frozen_trial = study._storage.get_trial(trial._trial_id)": "frozenFromStorage",
    "study._thread_local.in_optimize_loop = True": "enterOptimizeLoop", "i_trial = 0": "initTrialCount",
    "time_start = datetime.datetime.now()": "initTimeStart",
    "elapsed_seconds = (datetime.datetime.now() - time_start).total_seconds()": "readElapsed",
    "frozen_trial = _run_trial(study, func, catch)": "callRunTrial",
    "trial_id = self._pop_waiting_trial_id()": "popWaiting",
    "trial_id = self._storage.create_new_trial(self._study_id)": "createNewTrial",
    "trial = optuna.Trial(self, trial_id)": "newTrialObject",
    "trial_id = trial._trial_id": "trialIdFromTrial", "trial_number = trial": "trialNumberFromArg",
    "trial_id = study._storage.get_trial_id_from_study_id_trial_number(study._study_id, trial_number)": "lookupTrialNumber",
}
for _k, _v in TSTATE.items():
    ASSIGN["state = TrialState.%s" % _k] = ("setState", _v)
# expression statements
EXPR = {
    "_check_state_and_values(state, values)": "callCheckStateAndValues",
    "warnings.warn(values_conversion_failure_message)": "warn",
    "study.sampler.after_trial(study, frozen_trial, state, values)": "afterTrial",
    "study._storage.set_trial_state_values(frozen_trial._trial_id, state, values)": "storeStateValues",
    "float(v)": "floatV",
    "optuna.storages.fail_stale_trials(study)": "failStaleTrials",
    "study._log_completed_trial(frozen_trial)": "logCompleted",
    "study.sampler.reseed_rng()": "reseedRng", "gc.collect()": "gcCollect", "callback(study, frozen_trial)": "callCallback",
    "progress_bar.update(elapsed_seconds, study)": "progressUpdate", "study._storage.remove_session()": "removeSession",
    "trial._suggest(name, param)": "suggestFixed",
    "self._storage.set_trial_state_values(trial_id, TrialState.FAIL)": "failTrial",
    "self._storage.set_trial_state_values(trial_id, state=TrialState.FAIL)": "failTrial",
}
AUG = {"i_trial += 1": "bumpTrialCount"}
RETURN = {"copy.deepcopy(frozen_trial)": "frozenCopy", "frozen_trial": "frozenTrial", "trial": "trial", "trial._trial_id": "trialId",
          "study._storage.get_trial(trial_id)": "storedTrial"}
FOR = {
    ("v", "values"): "values", ("callback", "callbacks"): "callbacks",
    ("(name, param)", "fixed_distributions.items()"): "fixedDistributions",
    ("trial", "self._storage.get_all_trials(self._study_id, deepcopy=False, states=(TrialState.WAITING,))"): "waitingTrials",
}
WITH = {"get_heartbeat_thread(trial._trial_id, study._storage)": ("heartbeatEnter", "heartbeatExit")}
# calls whose arguments are only formatted into a log line (no effect on a trial): the callee name -> Act
LOGGERS = {"_logger.info": "logInfo", "_logger.debug": "logDebugPopped", "_log_failed_trial": "logFailed"}
PURE_CALLS = {"format", "str", "repr", "len"}
ASSIGN_N = {norm(k): v for k, v in ASSIGN.items()}
EXPR_N = {norm(k): v for k, v in EXPR.items()}
EXACT_COND_N = {norm(k): v for k, v in EXACT_COND.items()}
NONE_TESTS_N = {norm(k): v for k, v in NONE_TESTS.items()}
RETURN_N = {norm(k): v for k, v in RETURN.items()}
FOR_N = {(norm(a), norm(b)): v for (a, b), v in FOR.items()}
WITH_N = {norm(k): v for k, v in WITH.items()}
AUG_N = {ast.dump(ast.parse(k).body[0], annotate_fields=False, include_attributes=False): v for k, v in AUG.items()}


def trial_state(n: ast.AST) -> str | None:
    if isinstance(n, ast.Attribute) and isinstance(n.value, ast.Name) and n.value.id == "TrialState" and n.attr in TSTATE:
        return TSTATE[n.attr]
    return None


def pure_message(n: ast.AST) -> bool:
    """an expression that only formats values into text (repr/str/len/.format, names, attributes, subscripts)"""
    for x in ast.walk(n):
        if isinstance(x, ast.Call):
            f = x.func
            name = f.id if isinstance(f, ast.Name) else f.attr if isinstance(f, ast.Attribute) else None
            if name not in PURE_CALLS:
                return False
        if isinstance(x, (ast.Lambda, ast.NamedExpr, ast.Await, ast.Yield, ast.YieldFrom, ast.ListComp, ast.DictComp,
                          ast.SetComp, ast.GeneratorExp)):
            return False
    return True


def const_text(n: ast.AST) -> str | None:
    """the constant part of a string / f-string"""
    if isinstance(n, ast.Constant) and isinstance(n.value, str):
        return n.value
    if isinstance(n, ast.JoinedStr):
        return "".join(v.value for v in n.values if isinstance(v, ast.Constant) and isinstance(v.value, str))
    return None


class Ctx:
    def __init__(self, defaults: dict[str, dict[str, Any]]) -> None:
        self.defaults = defaults          # callee name -> {keyword: default constant}
        self.exc_names: list[str] = []    # names bound by the enclosing `except ... as <name>`

    # ---- conditions -----------------------------------------------------------------------------------------
    def cond(self, n: ast.AST) -> Any:
        if isinstance(n, ast.Constant) and n.value is True:
            return "tt"
        if isinstance(n, ast.Constant) and n.value is False:
            return "ff"
        if isinstance(n, ast.UnaryOp) and isinstance(n.op, ast.Not):
            return ("not", self.cond(n.operand))
        if isinstance(n, ast.BoolOp):
            op = "and" if isinstance(n.op, ast.And) else "or"
            out = self.cond(n.values[-1])
            for v in reversed(n.values[:-1]):
                out = (op, self.cond(v), out)
            return out
        k = norm(n)
        if k in EXACT_COND_N:
            return ("prim", EXACT_COND_N[k])
        if isinstance(n, ast.Compare) and len(n.ops) == 1:
            a, op, b = n.left, n.ops[0], n.comparators[0]
            if isinstance(op, (ast.Is, ast.IsNot)) and isinstance(b, ast.Constant) and b.value is None:
                ka = norm(a)
                if ka in NONE_TESTS_N:
                    c = ("prim", NONE_TESTS_N[ka])
                    return c if isinstance(op, ast.Is) else ("not", c)
                raise U(n, "`is None` test of something that is not whitelisted")
            if isinstance(op, (ast.Eq, ast.NotEq)):
                for x, y in ((a, b), (b, a)):
                    st = trial_state(y)
                    for lhs, prim in STATE_EQ.items():
                        if st is not None and is_src(x, lhs):
                            c = ("prim", (prim, st))
                            return c if isinstance(op, ast.Eq) else ("not", c)
                raise U(n, "comparison is not whitelisted")
            if isinstance(op, (ast.In, ast.NotIn)) and is_src(a, "state") and isinstance(b, (ast.Tuple, ast.List)) and b.elts:
                sts = [trial_state(e) for e in b.elts]
                if all(s is not None for s in sts):
                    c = ("prim", ("stateIn", sts))
                    return c if isinstance(op, ast.In) else ("not", c)
        raise U(n, "condition is not whitelisted")

    # ---- statements -----------------------------------------------------------------------------------------
    def block(self, body: list[ast.stmt]) -> list[Any]:
        out: list[Any] = []
        for st in body:
            out += self.stmt(st)
        return out

    def stmt(self, st: ast.stmt) -> list[Any]:
        if isinstance(st, ast.Pass):
            return []
        if isinstance(st, ast.Expr) and isinstance(st.value, ast.Constant) and isinstance(st.value.value, str):
            return []  # docstring
        if isinstance(st, ast.AnnAssign) and st.value is None:
            return []  # a bare annotation
        if isinstance(st, ast.Break):
            return ["brk"]
        if isinstance(st, ast.Continue):
            return ["cont"]
        if isinstance(st, ast.Return):
            v = st.value
            if v is None or (isinstance(v, ast.Constant) and v.value is None):
                return [("ret", "none")]
            k = norm(v)
            if k in RETURN_N:
                return [("ret", RETURN_N[k])]
            if isinstance(v, ast.Call) and is_src(v.func, "_tell_with_warning"):
                # Study.tell: `return _tell_with_warning(study=self, trial=trial, value_or_values=values, state=state, ...)`
                flags = self.tell_call(st, v, {"study": "self", "trial": "trial", "value_or_values": "values", "state": "state"},
                                       {"skip_if_finished": "skip_if_finished"})
                return [("act", ("tellFromStudy", flags["suppress_warning"])), ("ret", "callResult")]
            txt = const_text(v)
            if txt is not None and pure_message(v):
                for pat, why in WHY_OF:
                    if pat in txt:
                        return [("ret", ("msg", why))]
                raise U(st, "returned message is none of the three known ones")
            raise U(st, "return value is not whitelisted")
        if isinstance(st, ast.Raise):
            if st.cause is not None and not (isinstance(st.cause, ast.Name) and self.exc_names and st.cause.id == self.exc_names[-1]):
                raise U(st, "raise ... from <something that is not the exception being handled>")
            e = st.exc
            if e is None:
                return ["reraise"]
            if isinstance(e, ast.Name) and e.id == "func_err":
                return [("raise", "funcErr")]
            if isinstance(e, ast.Call) and isinstance(e.func, ast.Name) and e.func.id in ("ValueError", "TypeError", "RuntimeError") \
                    and not e.keywords and all(pure_message(a) for a in e.args):
                return [("raise", {"ValueError": "valueError", "TypeError": "typeError", "RuntimeError": "runtimeError"}[e.func.id])]
            raise U(st, "only `raise`, `raise func_err`, `raise ValueError|TypeError|RuntimeError(<message>)`")
        if isinstance(st, ast.Assert):
            if st.msg is not None and not pure_message(st.msg):
                raise U(st, "assert message")
            return [("assert", self.cond(st.test))]
        if isinstance(st, ast.If):
            return [("ite", self.cond(st.test), self.block(st.body), self.block(st.orelse))]
        if isinstance(st, ast.For):
            if st.orelse:
                raise U(st, "for ... else")
            key = (norm(st.target), norm(st.iter))
            if key not in FOR_N:
                raise U(st, "for loop header is not whitelisted")
            return [("forIn", FOR_N[key], self.block(st.body))]
        if isinstance(st, ast.While):
            if st.orelse or not (isinstance(st.test, ast.Constant) and st.test.value is True):
                raise U(st, "only `while True:`")
            return [("whileTrue", self.block(st.body))]
        if isinstance(st, ast.With):
            if len(st.items) != 1 or st.items[0].optional_vars is not None or norm(st.items[0].context_expr) not in WITH_N:
                raise U(st, "with statement is not whitelisted")
            enter, leave = WITH_N[norm(st.items[0].context_expr)]
            return [("act", enter), ("tryFinally", self.block(st.body), [("act", leave)])]
        if isinstance(st, ast.Try):
            return [self.try_stmt(st)]
        if isinstance(st, ast.AugAssign):
            k = ast.dump(st, annotate_fields=False, include_attributes=False)
            if k in AUG_N:
                return [("act", AUG_N[k])]
            raise U(st, "augmented assignment is not whitelisted")
        if isinstance(st, ast.Assign) and len(st.targets) == 1:
            return self.assign(st, st.targets[0], st.value)
        if isinstance(st, ast.AnnAssign) and st.value is not None and st.simple:
            return self.assign(st, st.target, st.value)
        if isinstance(st, ast.Expr):
            return self.expr(st)
        raise U(st, "statement shape is not whitelisted")

    def assign(self, st: ast.stmt, tgt: ast.AST, v: ast.AST) -> list[Any]:
        # compare through a re-parse of the statement's text (annotations / positions do not matter)
        k = norm_stmt("%s = %s" % (ast.unparse(tgt), ast.unparse(v)))
        if k in ASSIGN_STMT_N:
            a = ASSIGN_STMT_N[k]
            return [("act", a)]
        # func_err = e  (e bound by the enclosing handler)
        if is_src(tgt, "func_err") and isinstance(v, ast.Name) and self.exc_names and v.id == self.exc_names[-1]:
            return [("act", "funcErrFromCaught")]
        # frozen_trial = _tell_with_warning(study=study, trial=trial, value_or_values=value_or_values, state=state, ...)
        if is_src(tgt, "frozen_trial") and isinstance(v, ast.Call) and is_src(v.func, "_tell_with_warning"):
            flags = self.tell_call(st, v, {"study": "study", "trial": "trial", "value_or_values": "value_or_values", "state": "state"}, {})
            return [("act", ("callTell", flags["skip_if_finished"], flags["suppress_warning"]))]
        raise U(st, "assignment is not one of the whitelisted ones")

    def tell_call(self, st: ast.stmt, v: ast.Call, need: dict[str, str], passed: dict[str, str]) -> dict[str, Any]:
        """keywords of a `_tell_with_warning(...)` call: `need` must be passed exactly so, `passed` flags are handed through
        from the caller's parameter of that name (-> the string "arg"), the other flags are literal bools or the callee's
        defaults"""
        if v.args:
            raise U(st, "_tell_with_warning must be called with keywords only")
        kws = {kw.arg: kw.value for kw in v.keywords}
        if None in kws or len(kws) != len(v.keywords):
            raise U(st, "_tell_with_warning(**...) / repeated keyword")
        for name, src in need.items():
            if name not in kws or not is_src(kws[name], src):
                raise U(st, "_tell_with_warning(%s=...) must be `%s`" % (name, src))
        flags: dict[str, Any] = dict(self.defaults.get("_tell_with_warning", {}))
        for name in ("skip_if_finished", "suppress_warning"):
            if name in passed:
                if name not in kws or not is_src(kws[name], passed[name]):
                    raise U(st, "%s= must be `%s`" % (name, passed[name]))
                flags[name] = "arg"
                continue
            if name in kws:
                c = kws[name]
                if not (isinstance(c, ast.Constant) and isinstance(c.value, bool)):
                    raise U(st, "%s= must be a literal bool" % name)
                flags[name] = c.value
            if not isinstance(flags.get(name), bool):
                raise U(st, "no literal default for %s" % name)
        extra = set(kws) - set(need) - {"skip_if_finished", "suppress_warning"}
        if extra:
            raise U(st, "unexpected keywords %s" % sorted(extra))
        return flags

    def expr(self, st: ast.Expr) -> list[Any]:
        v = st.value
        k = norm(v)
        if k in EXPR_N:
            return [("act", EXPR_N[k])]
        if k in EXACT_COND_N:
            # a condition evaluated for its effect, the answer dropped
            return [("eval", ("prim", EXACT_COND_N[k]))]
        if isinstance(v, ast.Call):
            name = ast.unparse(v.func)
            if name in LOGGERS and all(pure_message(a) for a in v.args) and all(pure_message(kw.value) for kw in v.keywords):
                return [("act", LOGGERS[name])]
        raise U(st, "expression statement is not whitelisted")

    def try_stmt(self, st: ast.Try) -> Any:
        body = self.block(st.body)
        out: Any
        if st.handlers:
            chain: Any = ["reraise"]
            built: list[tuple[list[str], list[Any]]] = []
            for h in st.handlers:
                t = h.type
                if t is None:
                    classes = ["baseException"]
                else:
                    elts = t.elts if isinstance(t, ast.Tuple) else [t]
                    classes = []
                    for e in elts:
                        nm = e.id if isinstance(e, ast.Name) else e.attr if (isinstance(e, ast.Attribute) and isinstance(e.value, ast.Name) and e.value.id == "exceptions") else None
                        if nm not in CLS:
                            raise U(h, "exception class is not in the class table")
                        classes.append(CLS[nm])
                self.exc_names.append(h.name or "")
                try:
                    hb = self.block(h.body)
                finally:
                    self.exc_names.pop()
                built.append((classes, hb))
            for classes, hb in reversed(built):
                chain = [("onExc", classes, hb, chain)]
            out = ("tryExcept", body, chain, self.block(st.orelse))
        else:
            if st.orelse:
                raise U(st, "try/else without except")
            out = None
        if st.finalbody:
            inner = [out] if out is not None else body
            out = ("tryFinally", inner, self.block(st.finalbody))
        if out is None:
            raise U(st, "try without except or finally")
        return out


def norm_stmt(text: str) -> str:
    return ast.dump(ast.parse(text).body[0], annotate_fields=False, include_attributes=False)


ASSIGN_STMT_N = {norm_stmt(k): v for k, v in ASSIGN.items()}


# ---- rendering --------------------------------------------------------------------------------------------------------
def r_bool(b: bool) -> str:
    return "true" if b else "false"


def r_prim(p: Any) -> str:
    if isinstance(p, str):
        return "." + p
    if p[0] == "stateIn":
        return "(.stateIn [%s])" % ", ".join("." + s for s in p[1])
    return "(.%s .%s)" % (p[0], p[1])


def r_cond(c: Any) -> str:
    if isinstance(c, str):
        return "." + c
    if c[0] == "prim":
        return "(.prim %s)" % r_prim(c[1])
    if c[0] == "not":
        return "(.not %s)" % r_cond(c[1])
    return "(.%s %s %s)" % (c[0], r_cond(c[1]), r_cond(c[2]))


def r_act(a: Any) -> str:
    if isinstance(a, str):
        return "." + a
    if a[0] == "setState":
        return "(.setState %s)" % ("none" if a[1] is None else "(some .%s)" % a[1])
    if a[0] == "callTell":
        return "(.callTell %s %s)" % (r_bool(a[1]), r_bool(a[2]))
    if a[0] == "tellFromStudy":
        return "(.tellFromStudy %s)" % r_bool(a[1])
    raise AssertionError(a)


def r_block(b: list[Any], ind: int) -> str:
    if not b:
        return ".skip"
    if len(b) == 1:
        return r_stmt(b[0], ind)
    pad = " " * (ind + 2)
    return "(block [\n" + ",\n".join(pad + r_stmt(s, ind + 2) for s in b) + "])"


def r_stmt(s: Any, ind: int) -> str:
    if isinstance(s, str):
        return "." + s
    k = s[0]
    if k == "ref":
        return s[1]
    if k == "ret":
        return "(.ret %s)" % ("(.msg .%s)" % s[1][1] if isinstance(s[1], tuple) else "." + s[1])
    if k == "raise":
        return "(.raise .%s)" % s[1]
    if k == "act":
        return "(.act %s)" % r_act(s[1])
    if k in ("assert", "eval"):
        return "(.%s %s)" % (k, r_cond(s[1]))
    if k == "ite":
        return "(.ite %s %s %s)" % (r_cond(s[1]), r_block(s[2], ind + 2), r_block(s[3], ind + 2))
    if k == "forIn":
        return "(.forIn .%s %s)" % (s[1], r_block(s[2], ind + 2))
    if k == "whileTrue":
        return "(.whileTrue %s)" % r_block(s[1], ind + 2)
    if k == "tryExcept":
        return "(.tryExcept %s %s %s)" % (r_block(s[1], ind + 2), r_block(s[2], ind + 2), r_block(s[3], ind + 2))
    if k == "onExc":
        return "(.onExc [%s] %s %s)" % (", ".join("." + c for c in s[1]), r_block(s[2], ind + 2), r_block(s[3], ind + 2))
    if k == "tryFinally":
        return "(.tryFinally %s %s)" % (r_block(s[1], ind + 2), r_block(s[2], ind + 2))
    raise AssertionError(s)


def count(ir: Any) -> int:
    if isinstance(ir, list):
        return sum(count(x) for x in ir)
    if isinstance(ir, tuple) and ir and ir[0] in ("ite", "forIn", "whileTrue", "tryExcept", "onExc", "tryFinally"):
        return 1 + sum(count(x) for x in ir[1:] if isinstance(x, list))
    return 1


# ---- whole file -------------------------------------------------------------------------------------------------------
def find_func(tree: ast.Module, name: str, cls: str | None = None) -> ast.FunctionDef:
    body: list[ast.stmt] = tree.body
    if cls is not None:
        c = next((n for n in tree.body if isinstance(n, ast.ClassDef) and n.name == cls), None)
        if c is None:
            raise Untranslatable(cls, "class not found")
        body = c.body
    f = next((n for n in body if isinstance(n, ast.FunctionDef) and n.name == name), None)
    if f is None:
        raise Untranslatable(name, "function not found")
    if f.decorator_list:
        raise U(f, "decorated")
    return f


def params(fn: ast.FunctionDef) -> tuple[list[str], dict[str, Any]]:
    a = fn.args
    if a.vararg or a.kwarg or a.kwonlyargs or a.posonlyargs:
        raise U(fn, "unexpected parameter list")
    names = [x.arg for x in a.args]
    defaults: dict[str, Any] = {}
    for nm, d in zip(names[len(names) - len(a.defaults):], a.defaults):
        defaults[nm] = d.value if isinstance(d, ast.Constant) else ast.unparse(d)
    return names, defaults


SIGNATURES = {
    "_check_state_and_values": ["state", "values"],
    "_check_values_are_feasible": ["study", "values"],
    "_tell_with_warning": ["study", "trial", "value_or_values", "state", "skip_if_finished", "suppress_warning"],
    "_run_trial": ["study", "func", "catch"],
    "_optimize_sequential": ["study", "func", "n_trials", "timeout", "catch", "callbacks", "gc_after_trial", "reseed_sampler_rng",
                             "time_start", "progress_bar"],
    "ask": ["self", "fixed_distributions"],
    "_get_frozen_trial": ["study", "trial"],
    "tell": ["self", "trial", "values", "state", "skip_if_finished"],
    "_pop_waiting_trial_id": ["self"],
}
# (python name, file, class, lean name)
FUNCS = [
    ("_check_state_and_values", "optuna/study/_tell.py", None, "checkStateAndValues"),
    ("_check_values_are_feasible", "optuna/study/_tell.py", None, "checkValuesAreFeasible"),
    ("_tell_with_warning", "optuna/study/_tell.py", None, "tellWithWarning"),
    ("_run_trial", "optuna/study/_optimize.py", None, "runTrial"),
    ("_optimize_sequential", "optuna/study/_optimize.py", None, "optimizeSequential"),
    ("ask", "optuna/study/study.py", "Study", "ask"),
    ("_pop_waiting_trial_id", "optuna/study/study.py", "Study", "popWaitingTrialId"),
    ("_get_frozen_trial", "optuna/study/_tell.py", None, "getFrozenTrial"),
    ("tell", "optuna/study/study.py", "Study", "studyTell"),
]
ASK_START = "trial_id = self._pop_waiting_trial_id()"
ASK_PREFIX_FORBIDDEN = ("trial_id", "create_new_trial", "_pop_waiting_trial_id", "Trial(", "set_trial_state_values")
EXC_OF_INTEREST = ["OptunaError", "TrialPruned", "UpdateFinishedTrialError"]
STUB = "(.raise .runtimeError)"


def read_exc_bases(repo: str) -> list[tuple[str, list[str]]]:
    tree = ast.parse(open(os.path.join(repo, "optuna/exceptions.py")).read())
    out = []
    for name in EXC_OF_INTEREST:
        c = next((n for n in tree.body if isinstance(n, ast.ClassDef) and n.name == name), None)
        if c is None:
            raise Untranslatable("optuna/exceptions.py", "class %s not found" % name)
        out.append((name, [ast.unparse(b) for b in c.bases]))
    return out


def translate(repo: str) -> tuple[str, dict[str, Any], list[dict[str, str]]]:
    """-> (Lean text, info, problems)"""
    problems: list[dict[str, str]] = []
    info: dict[str, Any] = {"functions": {}, "ask_prefix": []}
    trees: dict[str, ast.Module] = {}

    def tree_of(rel: str) -> ast.Module:
        if rel not in trees:
            trees[rel] = ast.parse(open(os.path.join(repo, rel)).read())
        return trees[rel]

    defaults: dict[str, dict[str, Any]] = {}
    try:
        names, dfl = params(find_func(tree_of("optuna/study/_tell.py"), "_tell_with_warning"))
        defaults["_tell_with_warning"] = dfl
    except (Untranslatable, OSError, SyntaxError) as e:
        problems.append({"what": "_tell_with_warning signature", "why": str(e)})
    defs: list[tuple[str, str, str, str]] = []   # (lean name, python name, rendered, comment)

    for pyname, rel, cls, lean in FUNCS:
        try:
            fn = find_func(tree_of(rel), pyname, cls)
            names, _ = params(fn)
            if names != SIGNATURES[pyname]:
                raise U(fn, "parameters %s, expected %s" % (names, SIGNATURES[pyname]))
            body = list(fn.body)
            if pyname == "ask":
                at = next((i for i, s in enumerate(body) if isinstance(s, ast.Assign) and norm_stmt(ast.unparse(s)) == norm_stmt(ASK_START)), None)
                if at is None:
                    raise U(fn, "no `%s` statement" % ASK_START)
                # the cache reset just before the pop is part of the translated tail
                if at > 0 and norm_stmt(ast.unparse(body[at - 1])) in ASSIGN_STMT_N:
                    at -= 1
                prefix = [" ".join(ast.unparse(s).split()) for s in body[:at]
                          if not (isinstance(s, ast.Expr) and isinstance(s.value, ast.Constant) and isinstance(s.value.value, str))]
                for t in prefix:
                    if any(w in t for w in ASK_PREFIX_FORBIDDEN):
                        raise U(fn, "a statement before the pop touches the trial: %s" % t[:100])
                info["ask_prefix"] = prefix
                body = body[at:]
            ctx = Ctx(defaults)
            ir = ctx.block(body)
            comment = "lines %d-%d" % (fn.lineno, fn.end_lineno or fn.lineno)
            if pyname == "_optimize_sequential":
                loops = [i for i, s in enumerate(ir) if isinstance(s, tuple) and s[0] == "whileTrue"]
                if len(loops) != 1:
                    raise U(fn, "expected exactly one top-level `while True:` loop")
                loop_body = ir[loops[0]][1]
                info["functions"][pyname + " (loop body)"] = count(loop_body)
                defs.append((lean + "Loop", pyname, r_block(loop_body, 2), "the body of its `while True:` loop"))
                ir = ir[:loops[0]] + [("ref", "(.whileTrue %sLoop)" % lean)] + ir[loops[0] + 1:]
            info["functions"][pyname] = count(ir)
            defs.append((lean, pyname, r_block(ir, 2), comment))
        except (Untranslatable, OSError, SyntaxError) as e:
            problems.append({"what": pyname, "why": str(e)})
            info["functions"][pyname] = None
            if pyname == "_optimize_sequential":
                defs.append((lean + "Loop", pyname, STUB, "UNTRANSLATABLE"))
            defs.append((lean, pyname, STUB, "UNTRANSLATABLE: %s" % str(e).replace("-/", "- /")))
    try:
        bases = read_exc_bases(repo)
    except (Untranslatable, OSError, SyntaxError) as e:
        problems.append({"what": "optuna/exceptions.py", "why": str(e)})
        bases = []
    info["exc_bases"] = bases
    L = ["import OptunaVerif.Model.TellIR",
         "/-! GENERATED by verif/translators/ttell.py from optuna/study/_tell.py, _optimize.py, study.py on every check run - do not edit. -/",
         "namespace OptunaVerif.Generated.TellMethods",
         "open OptunaVerif OptunaVerif.TellIR", ""]
    for lean, pyname, text, comment in defs:
        L.append("/-- `%s` (%s) -/" % (pyname, comment))
        L.append("def %s : Stmt :=\n  %s\n" % (lean, text))
    L.append("/-- the translated bodies -/")
    L.append("def program : Program where")
    for lean in ["checkStateAndValues", "checkValuesAreFeasible", "tellWithWarning", "runTrial", "optimizeSequential",
                 "optimizeSequentialLoop", "ask", "popWaitingTrialId", "getFrozenTrial", "studyTell"]:
        L.append("  %s := %s" % (lean, lean))
    L.append("")
    L.append("/-- bases of the exception classes the handlers name (optuna/exceptions.py) -/")
    L.append("def excBases : List (String × List String) :=\n  [%s]\n" % ", ".join(
        '("%s", [%s])' % (n, ", ".join('"%s"' % b for b in bs)) for n, bs in bases))
    L.append("end OptunaVerif.Generated.TellMethods")
    return "\n".join(L) + "\n", info, problems


if __name__ == "__main__":
    import sys

    text, info, problems = translate(sys.argv[1] if len(sys.argv) > 1 else "/repo")
    print(text)
    for p in problems:
        print("-- PROBLEM", p, file=sys.stderr)
