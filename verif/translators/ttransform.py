"""T-transform (C11 / C10): optuna/_transform.py  ->  lean/OptunaVerif/Generated/TransformGen.lean

What is regenerated from the working tree of the repo on every run (Python `ast`, whitelisted shapes only), as DATA
of the IR of lean/OptunaVerif/Model/TransformIR.lean (`prog : Prog`):

  * `_transform_numerical_param`, `_untransform_numerical_param`: the whole `if/elif/else` chain of each function as a
    decision tree over the guards `isinstance(d, Cls)`, `d.log`, `d.step is not None`, `d.single()`, `transform_log`
    (straight-line assignments are inlined by symbolic execution, every path ends in `return` or `assert False`);
    leaves are expression trees over `param`/`trans_param`, `d.low`, `d.high`, `d.step`, numeric literals and module
    constants, `+ - * /`, `math.log` / `math.exp` (the abstract pair lg/ex), `float`, `int`, `np.round`, `np.clip`,
    `min`/`max`, conditional expressions, and the named primitive `np.nextafter(A, A - 1)`;
  * `_transform_search_space`: the width expression of `n_bounds`, the guards of the loop's two arms, the statements of the
    categorical arm (broadcast `(0, 1)` rows, `np.arange` columns, back map, append, advance), the tree that computes
    `bds` (half-step widening with `0.5 * d.step if transform_step else 0.0`, `_transform_numerical_param` of the
    bounds), the statements of the numerical arm;
  * `_SearchSpaceTransform.transform`: the initial array, the two arms of the loop (one-hot write at
    `bound_idx + choice_idx`, numerical write, advance), the `transform_0_1` block (zero-width mask: `==` or
    `np.isclose`; the masked assignments with their right-hand sides);
  * `_SearchSpaceTransform.untransform`: the un-scaling expression, the index handed to `to_external_repr`
    (`argmax` of the columns, possibly of a reversed view, `len`, `+ -`), the numerical arm;
  * `__init__` / the `bounds` and `column_to_encoded_columns` properties: checked to be the modelled glue (which result of
    `_transform_search_space` is stored where; unit rows under `transform_0_1`).

Anything else (an unknown call, a new statement, a changed loop header) raises `Untranslatable`; the harness turns
that into chk.broke("translation", ...).
"""
from __future__ import annotations

import ast
import hashlib
import os
from fractions import Fraction
from typing import Any

OUT_REL = os.path.join("OptunaVerif", "Generated", "TransformGen.lean")
SOURCE_REL = os.path.join("optuna", "_transform.py")

CAT, FLT, INT = "CategoricalDistribution", "FloatDistribution", "IntDistribution"


class Untranslatable(Exception):
    pass


def need(cond: Any, msg: str) -> None:
    if not cond:
        raise Untranslatable(msg)


def dotted(n: ast.AST) -> str | None:
    if isinstance(n, ast.Name):
        return n.id
    if isinstance(n, ast.Attribute):
        b = dotted(n.value)
        return None if b is None else b + "." + n.attr
    return None


def src(n: ast.AST) -> str:
    try:
        return ast.unparse(n)[:160]
    except Exception:  # noqa: BLE001
        return ast.dump(n)[:160]


def rat(fr: Fraction) -> str:
    if fr.denominator == 1:
        return "(%d : Rat)" % fr.numerator
    return "((%d : Rat) / %d)" % (fr.numerator, fr.denominator)


def strip_doc(body: list[ast.stmt]) -> list[ast.stmt]:
    if body and isinstance(body[0], ast.Expr) and isinstance(body[0].value, ast.Constant) and isinstance(body[0].value.value, str):
        return body[1:]
    return body


def same(a: ast.AST, b: ast.AST) -> bool:
    return ast.dump(a) == ast.dump(b)


def is_assert_false(st: ast.stmt) -> bool:
    return isinstance(st, ast.Assert) and isinstance(st.test, ast.Constant) and st.test.value is False


# ---------------------------------------------------------------------------------------------------------------
# module constants  (e.g. `_EPS = float(np.finfo(np.float64).eps)`)
# ---------------------------------------------------------------------------------------------------------------
def const_value(n: ast.AST, consts: dict[str, Fraction]) -> Fraction | None:
    """a constant numeric expression evaluated as Python evaluates it (float arithmetic), exact; None = not constant"""
    def ev(e: ast.AST) -> Any:
        if isinstance(e, ast.Constant) and isinstance(e.value, (int, float)) and not isinstance(e.value, bool):
            return e.value
        if isinstance(e, ast.Name) and e.id in consts:
            return float(consts[e.id]) if consts[e.id].denominator != 1 else int(consts[e.id])
        if isinstance(e, ast.UnaryOp) and isinstance(e.op, (ast.USub, ast.UAdd)):
            v = ev(e.operand)
            return -v if isinstance(e.op, ast.USub) else v
        if isinstance(e, ast.BinOp) and isinstance(e.op, (ast.Add, ast.Sub, ast.Mult, ast.Div, ast.Pow)):
            a, b = ev(e.left), ev(e.right)
            if isinstance(e.op, ast.Add):
                return a + b
            if isinstance(e.op, ast.Sub):
                return a - b
            if isinstance(e.op, ast.Mult):
                return a * b
            if isinstance(e.op, ast.Div):
                return a / b
            return a ** b
        if isinstance(e, ast.Call) and dotted(e.func) == "float" and len(e.args) == 1 and not e.keywords:
            return float(ev(e.args[0]))
        d = dotted(e)
        if d in ("sys.float_info.epsilon",):
            return 2.0 ** -52
        if isinstance(e, ast.Attribute) and e.attr == "eps" and isinstance(e.value, ast.Call) \
                and dotted(e.value.func) in ("np.finfo", "numpy.finfo") and len(e.value.args) == 1 \
                and dotted(e.value.args[0]) in ("np.float64", "float", "numpy.float64", "np.double"):
            return 2.0 ** -52
        raise ValueError(src(e))
    try:
        v = ev(n)
    except (ValueError, ZeroDivisionError, OverflowError, TypeError):
        return None
    if isinstance(v, bool) or not isinstance(v, (int, float)) or v != v or abs(v) == float("inf"):
        return None
    return Fraction(v)


# ---------------------------------------------------------------------------------------------------------------
# guards and expressions
# ---------------------------------------------------------------------------------------------------------------
class Scope:
    """names of one function: which names denote the distribution, the numeric argument, the flags"""

    def __init__(self, dists: set[str], args: set[str], consts: dict[str, Fraction]) -> None:
        self.dists = set(dists)
        self.args = set(args)
        self.consts = consts
        self.tlog = {"transform_log", "self._transform_log"}
        self.tstep = {"transform_step"}

    def is_dist(self, n: ast.AST) -> bool:
        return isinstance(n, ast.Name) and n.id in self.dists


def guard(n: ast.AST, sc: Scope) -> str:
    if isinstance(n, ast.UnaryOp) and isinstance(n.op, ast.Not):
        return "(.not %s)" % guard(n.operand, sc)
    if isinstance(n, ast.Call) and dotted(n.func) == "isinstance" and len(n.args) == 2 and not n.keywords and sc.is_dist(n.args[0]):
        cls = n.args[1]
        if isinstance(cls, ast.Tuple):
            names = sorted(dotted(e) or "?" for e in cls.elts)
            need(names == [FLT, INT], "isinstance against %s" % names)
            return ".isNum"
        k = {CAT: ".isCat", FLT: ".isFloat", INT: ".isInt"}.get(dotted(cls) or "")
        need(k is not None, "isinstance against %s" % src(cls))
        return k  # type: ignore[return-value]
    d = dotted(n)
    if d is not None:
        if d in sc.tlog:
            return ".tLog"
        if d in sc.tstep:
            return ".tStep"
        if isinstance(n, ast.Attribute) and sc.is_dist(n.value) and n.attr == "log":
            return ".dLog"
    if isinstance(n, ast.Call) and isinstance(n.func, ast.Attribute) and n.func.attr == "single" and sc.is_dist(n.func.value) \
            and not n.args and not n.keywords:
        return ".single"
    if isinstance(n, ast.Compare) and len(n.ops) == 1 and isinstance(n.left, ast.Attribute) and sc.is_dist(n.left.value) \
            and n.left.attr == "step" and isinstance(n.comparators[0], ast.Constant) and n.comparators[0].value is None:
        if isinstance(n.ops[0], ast.IsNot):
            return ".hasStep"
        if isinstance(n.ops[0], ast.Is):
            return "(.not .hasStep)"
    raise Untranslatable("guard " + src(n))


ARITH = {ast.Add: "add", ast.Sub: "sub", ast.Mult: "mul", ast.Div: "div"}
CALL1 = {"math.log": "lg", "np.log": "lg", "math.exp": "ex", "np.exp": "ex", "float": "toFloat", "int": "toInt",
         "np.round": "round", "round": "round", "np.rint": "round"}
CALL2 = {"min": "min", "max": "max", "np.minimum": "min", "np.maximum": "max"}
DATTR = {"low": "(.var .low)", "high": "(.var .high)", "step": "(.var .step)"}


def expr(n: ast.AST, sc: Scope, env: dict[str, Any]) -> str:
    """a numeric expression -> a term of TransformIR.X"""
    if isinstance(n, ast.Name):
        if n.id in env:
            need(isinstance(env[n.id], str), "name %s is not a number here" % n.id)
            return env[n.id]
        if n.id in sc.args:
            return "(.var .arg)"
        if n.id in sc.consts:
            return "(.num %s)" % rat(sc.consts[n.id])
        raise Untranslatable("unknown name %s" % n.id)
    if isinstance(n, ast.Constant):
        need(isinstance(n.value, (int, float)) and not isinstance(n.value, bool) and n.value == n.value
             and abs(n.value) != float("inf"), "literal %r" % (n.value,))
        return "(.num %s)" % rat(Fraction(n.value))
    if isinstance(n, ast.Attribute):
        if sc.is_dist(n.value) and n.attr in DATTR:
            return DATTR[n.attr]
        raise Untranslatable("attribute " + src(n))
    if isinstance(n, ast.UnaryOp):
        if isinstance(n.op, ast.USub):
            return "(.neg %s)" % expr(n.operand, sc, env)
        if isinstance(n.op, ast.UAdd):
            return expr(n.operand, sc, env)
        raise Untranslatable("unary operator in " + src(n))
    if isinstance(n, ast.BinOp):
        need(type(n.op) in ARITH, "binary operator in " + src(n))
        return "(.%s %s %s)" % (ARITH[type(n.op)], expr(n.left, sc, env), expr(n.right, sc, env))
    if isinstance(n, ast.IfExp):
        return "(.ite %s %s %s)" % (guard(n.test, sc), expr(n.body, sc, env), expr(n.orelse, sc, env))
    if isinstance(n, ast.Call):
        need(not n.keywords, "keyword call " + src(n))
        d = dotted(n.func)
        if d in CALL1 and len(n.args) == 1:
            return "(.%s %s)" % (CALL1[d], expr(n.args[0], sc, env))
        if d in CALL2 and len(n.args) == 2:
            return "(.%s %s %s)" % (CALL2[d], expr(n.args[0], sc, env), expr(n.args[1], sc, env))
        if d == "np.clip" and len(n.args) == 3:
            return "(.clip %s %s %s)" % tuple(expr(a, sc, env) for a in n.args)
        if d == "np.nextafter" and len(n.args) == 2:
            a, b = n.args
            need(isinstance(b, ast.BinOp) and isinstance(b.op, ast.Sub) and same(b.left, a)
                 and isinstance(b.right, ast.Constant) and b.right.value == 1 and not isinstance(b.right.value, bool),
                 "np.nextafter: only the shape nextafter(A, A - 1) is a primitive, got " + src(n))
            return "(.nextBelow %s)" % expr(a, sc, env)
        if d == "_transform_numerical_param" and len(n.args) == 3:
            need(sc.is_dist(n.args[1]), "_transform_numerical_param: 2nd argument " + src(n.args[1]))
            need(dotted(n.args[2]) in sc.tlog, "_transform_numerical_param: 3rd argument " + src(n.args[2]))
            return "(.tnum %s)" % expr(n.args[0], sc, env)
        raise Untranslatable("call " + src(n))
    raise Untranslatable("expression " + src(n))


# ---------------------------------------------------------------------------------------------------------------
# symbolic execution of an if/elif/else chain with inlined straight-line assignments -> TransformIR.T
# ---------------------------------------------------------------------------------------------------------------
def tree(stmts: list[ast.stmt], sc: Scope, env: dict[str, Any], leaf: Any, depth: int = 0) -> str:
    """`leaf(env, return_value_node | None)` builds the leaf when the path returns / runs out of statements"""
    need(depth < 40, "too deeply nested")
    if not stmts:
        return leaf(env, None)
    st, rest = stmts[0], stmts[1:]
    if isinstance(st, ast.Pass):
        return tree(rest, sc, env, leaf, depth)
    if is_assert_false(st):
        return ".unreachable"
    if isinstance(st, ast.Return):
        need(st.value is not None, "bare return")
        return leaf(env, st.value)
    if isinstance(st, ast.Assign) and len(st.targets) == 1 and isinstance(st.targets[0], ast.Name):
        name = st.targets[0].id
        if isinstance(st.value, ast.Name) and st.value.id in sc.dists:      # d = distribution
            sc2 = Scope(sc.dists | {name}, sc.args, sc.consts)
            sc2.tlog, sc2.tstep = sc.tlog, sc.tstep
            return tree(rest, sc2, env, leaf, depth)
        env2 = dict(env)
        if isinstance(st.value, ast.Tuple):
            need(len(st.value.elts) == 2, "tuple of %d" % len(st.value.elts))
            env2[name] = (expr(st.value.elts[0], sc, env), expr(st.value.elts[1], sc, env))
        else:
            env2[name] = expr(st.value, sc, env)
        return tree(rest, sc, env2, leaf, depth)
    if isinstance(st, ast.If):
        g = guard(st.test, sc)
        a = tree(list(st.body) + rest, sc, env, leaf, depth + 1)
        b = tree(list(st.orelse) + rest, sc, env, leaf, depth + 1)
        return "(.ite %s %s %s)" % (g, a, b)
    raise Untranslatable("statement " + src(st))


def fn_named(body: list[ast.stmt], name: str) -> ast.FunctionDef:
    for n in body:
        if isinstance(n, ast.FunctionDef) and n.name == name:
            return n
    raise Untranslatable("function %s not found" % name)


def arg_names(f: ast.FunctionDef) -> list[str]:
    need(not (f.args.vararg or f.args.kwarg or f.args.kwonlyargs or f.args.posonlyargs), "%s: plain parameters only" % f.name)
    return [a.arg for a in f.args.args]


def numeric_fn(f: ast.FunctionDef, consts: dict[str, Fraction]) -> str:
    """(param, distribution, transform_log) -> T X"""
    a = arg_names(f)
    need(len(a) == 3 and a[2] == "transform_log", "%s: parameters %s" % (f.name, a))
    sc = Scope({a[1]}, {a[0]}, consts)

    def leaf(env: dict[str, Any], ret: ast.AST | None) -> str:
        need(ret is not None, "%s: a path falls off the end" % f.name)
        return "(.ret %s)" % expr(ret, sc, env)

    return tree(strip_doc(f.body), sc, {}, leaf)


# ---------------------------------------------------------------------------------------------------------------
# _transform_search_space
# ---------------------------------------------------------------------------------------------------------------
def width(n: ast.AST, sc: Scope, walias: set[str]) -> str:
    if isinstance(n, ast.Constant) and n.value == 1 and not isinstance(n.value, bool) and isinstance(n.value, int):
        return ".one"
    if isinstance(n, ast.Name) and n.id in walias:
        return ".nChoices"
    if isinstance(n, ast.Call) and dotted(n.func) == "len" and len(n.args) == 1 and isinstance(n.args[0], ast.Attribute) \
            and n.args[0].attr == "choices" and sc.is_dist(n.args[0].value):
        return ".nChoices"
    raise Untranslatable("width " + src(n))


def idx_plus(n: ast.AST, idx: str, sc: Scope, walias: set[str]) -> str:
    """`bound_idx + W` -> W"""
    need(isinstance(n, ast.BinOp) and isinstance(n.op, ast.Add) and isinstance(n.left, ast.Name) and n.left.id == idx,
         "expected %s + <width>, got %s" % (idx, src(n)))
    return width(n.right, sc, walias)  # type: ignore[attr-defined]


def ss_arm(stmts: list[ast.stmt], sc: Scope, nm: dict[str, str], bds_name: str | None) -> list[str]:
    out: list[str] = []
    walias: set[str] = set()
    cols: str | None = None
    for st in stmts:
        if isinstance(st, ast.Assign) and len(st.targets) == 1:
            t, v = st.targets[0], st.value
            if isinstance(t, ast.Name):
                if isinstance(v, ast.Call) and dotted(v.func) == "len":
                    need(width(v, sc, walias) == ".nChoices", "width alias")
                    walias.add(t.id)
                    continue
                if isinstance(v, ast.Call) and dotted(v.func) == "np.arange" and len(v.args) == 2 and not v.keywords:
                    need(isinstance(v.args[0], ast.Name) and v.args[0].id == nm["idx"], "np.arange must start at %s" % nm["idx"])
                    out.append("(.colsArange %s)" % idx_plus(v.args[1], nm["idx"], sc, walias))
                    cols = t.id
                    continue
                if isinstance(v, ast.Call) and dotted(v.func) == "np.atleast_1d" and len(v.args) == 1 and not v.keywords:
                    need(isinstance(v.args[0], ast.Name) and v.args[0].id == nm["idx"], "np.atleast_1d(%s) expected" % nm["idx"])
                    out.append(".colsOne")
                    cols = t.id
                    continue
            if isinstance(t, ast.Subscript) and isinstance(t.value, ast.Name):
                if t.value.id == nm["bounds"]:
                    if isinstance(t.slice, ast.Slice):
                        need(t.slice.step is None and isinstance(t.slice.lower, ast.Name) and t.slice.lower.id == nm["idx"]
                             and t.slice.upper is not None, "slice of bounds " + src(t))
                        w = idx_plus(t.slice.upper, nm["idx"], sc, walias)
                        need(isinstance(v, ast.Tuple) and len(v.elts) == 2, "rows value " + src(v))
                        lo, hi = (const_value(e, sc.consts) for e in v.elts)  # type: ignore[union-attr]
                        need(lo is not None and hi is not None, "rows value " + src(v))
                        out.append("(.rowsConst %s %s %s)" % (w, rat(lo), rat(hi)))  # type: ignore[arg-type]
                        continue
                    if isinstance(t.slice, ast.Name) and t.slice.id == nm["idx"]:
                        need(bds_name is not None and isinstance(v, ast.Name) and v.id == bds_name, "bounds[%s] = %s" % (nm["idx"], src(v)))
                        out.append(".rowBds")
                        continue
                if t.value.id == nm["e2c"]:
                    need(cols is not None and isinstance(t.slice, ast.Name) and t.slice.id == cols, "index of %s: %s" % (nm["e2c"], src(t)))
                    need(isinstance(v, ast.Call) and dotted(v.func) == "len" and len(v.args) == 1
                         and isinstance(v.args[0], ast.Name) and v.args[0].id == nm["c2e"], "back map value " + src(v))
                    out.append(".backMap")
                    continue
        if isinstance(st, ast.Expr) and isinstance(st.value, ast.Call) and dotted(st.value.func) == nm["c2e"] + ".append" \
                and len(st.value.args) == 1 and isinstance(st.value.args[0], ast.Name) and st.value.args[0].id == cols:
            out.append(".appendCols")
            continue
        if isinstance(st, ast.AugAssign) and isinstance(st.op, ast.Add) and isinstance(st.target, ast.Name) and st.target.id == nm["idx"]:
            out.append("(.advance %s)" % width(st.value, sc, walias))
            continue
        raise Untranslatable("_transform_search_space, loop arm: " + src(st))
    return out


def search_space_fn(f: ast.FunctionDef, consts: dict[str, Fraction]) -> dict[str, str]:
    a = arg_names(f)
    need(a == ["search_space", "transform_log", "transform_step"], "_transform_search_space parameters %s" % a)
    body = strip_doc(f.body)
    res: dict[str, str] = {}
    nm: dict[str, str] = {}
    i = 0
    # optional `assert len(search_space) > 0`
    if isinstance(body[i], ast.Assert) and not is_assert_false(body[i]):
        i += 1
    # n_bounds = sum(A if G else B for d in search_space.values())
    st = body[i]
    need(isinstance(st, ast.Assign) and len(st.targets) == 1 and isinstance(st.targets[0], ast.Name)
         and isinstance(st.value, ast.Call) and dotted(st.value.func) == "sum" and len(st.value.args) == 1
         and isinstance(st.value.args[0], ast.GeneratorExp), "n_bounds: " + src(st))
    nb_name = st.targets[0].id  # type: ignore[union-attr]
    ge = st.value.args[0]  # type: ignore[union-attr]
    need(len(ge.generators) == 1 and not ge.generators[0].ifs and isinstance(ge.generators[0].target, ast.Name)
         and dotted(ge.generators[0].iter.func if isinstance(ge.generators[0].iter, ast.Call) else ge.generators[0].iter) == "search_space.values"
         and isinstance(ge.elt, ast.IfExp), "n_bounds generator: " + src(ge))
    gsc = Scope({ge.generators[0].target.id}, set(), consts)
    res["nbG"] = guard(ge.elt.test, gsc)
    res["nbThen"] = width(ge.elt.body, gsc, set())
    res["nbElse"] = width(ge.elt.orelse, gsc, set())
    i += 1
    # allocations (any order): bounds = np.empty((n, 2), ...); c2e = []; e2c = np.empty(n, ...); idx = 0
    while i < len(body) and not isinstance(body[i], ast.For):
        st = body[i]
        if isinstance(st, ast.AnnAssign) and isinstance(st.target, ast.Name) and isinstance(st.value, ast.List) and not st.value.elts:
            nm["c2e"] = st.target.id
        elif isinstance(st, ast.Assign) and len(st.targets) == 1 and isinstance(st.targets[0], ast.Name):
            t, v = st.targets[0].id, st.value
            if isinstance(v, ast.List) and not v.elts:
                nm["c2e"] = t
            elif isinstance(v, ast.Constant) and v.value == 0 and not isinstance(v.value, bool):
                nm["idx"] = t
            elif isinstance(v, ast.Call) and dotted(v.func) == "np.empty" and len(v.args) == 1:
                sh = v.args[0]
                if isinstance(sh, ast.Tuple):
                    need(len(sh.elts) == 2 and isinstance(sh.elts[0], ast.Name) and sh.elts[0].id == nb_name
                         and isinstance(sh.elts[1], ast.Constant) and sh.elts[1].value == 2, "shape of bounds " + src(sh))
                    nm["bounds"] = t
                else:
                    need(isinstance(sh, ast.Name) and sh.id == nb_name, "shape of the back map " + src(sh))
                    nm["e2c"] = t
            else:
                raise Untranslatable("_transform_search_space: " + src(st))
        else:
            raise Untranslatable("_transform_search_space: " + src(st))
        i += 1
    need(set(nm) == {"bounds", "c2e", "e2c", "idx"}, "_transform_search_space: allocations found %s" % sorted(nm))
    loop = body[i]
    need(isinstance(loop, ast.For) and not loop.orelse and isinstance(loop.target, ast.Name)
         and isinstance(loop.iter, ast.Call) and dotted(loop.iter.func) == "search_space.values" and not loop.iter.args,
         "_transform_search_space loop header " + src(loop)[:80])
    sc = Scope({loop.target.id}, set(), consts)  # type: ignore[union-attr]
    lb = list(loop.body)  # type: ignore[union-attr]
    while lb and isinstance(lb[0], ast.Assign) and len(lb[0].targets) == 1 and isinstance(lb[0].targets[0], ast.Name) \
            and isinstance(lb[0].value, ast.Name) and lb[0].value.id in sc.dists:
        sc.dists.add(lb[0].targets[0].id)
        lb = lb[1:]
    need(len(lb) == 1 and isinstance(lb[0], ast.If), "_transform_search_space loop body is not one if/elif/else")
    top = lb[0]
    res["ssCatG"] = guard(top.test, sc)  # type: ignore[union-attr]
    res["ssCat"] = "[" + ", ".join(ss_arm(list(top.body), sc, nm, None)) + "]"  # type: ignore[union-attr]
    need(len(top.orelse) == 1 and isinstance(top.orelse[0], ast.If), "_transform_search_space: second arm")  # type: ignore[union-attr]
    sec = top.orelse[0]  # type: ignore[union-attr]
    res["ssNumG"] = guard(sec.test, sc)
    need(len(sec.orelse) == 1 and is_assert_false(sec.orelse[0]), "_transform_search_space: the final else must be `assert False`")
    nb = list(sec.body)
    need(nb and isinstance(nb[0], ast.If), "_transform_search_space: numerical arm must start with the if chain computing the bounds pair")
    # the name that carries the pair: the one stored into bounds[idx]
    bds_name = None
    for st in nb[1:]:
        if isinstance(st, ast.Assign) and isinstance(st.targets[0], ast.Subscript) and isinstance(st.targets[0].value, ast.Name) \
                and st.targets[0].value.id == nm["bounds"] and isinstance(st.value, ast.Name):
            bds_name = st.value.id
    need(bds_name is not None, "_transform_search_space: no `bounds[idx] = <pair>`")

    def leaf(env: dict[str, Any], ret: ast.AST | None) -> str:
        need(ret is None, "return inside the bounds chain")
        p = env.get(bds_name)
        need(isinstance(p, tuple), "a path does not assign the pair %s" % bds_name)
        return "(.ret (%s, %s))" % p

    res["ssBds"] = tree([nb[0]], sc, {}, leaf)
    res["ssNum"] = "[" + ", ".join(ss_arm(nb[1:], sc, nm, bds_name)) + "]"
    i += 1
    # assert bound_idx == n_bounds ; return bounds, c2e, e2c
    if i < len(body) and isinstance(body[i], ast.Assert):
        t = body[i].test  # type: ignore[union-attr]
        need(isinstance(t, ast.Compare) and len(t.ops) == 1 and isinstance(t.ops[0], ast.Eq)
             and {dotted(t.left), dotted(t.comparators[0])} == {nm["idx"], nb_name}, "final assert " + src(t))
        i += 1
    need(i == len(body) - 1 and isinstance(body[i], ast.Return) and isinstance(body[i].value, ast.Tuple)  # type: ignore[union-attr]
         and [dotted(e) for e in body[i].value.elts] == [nm["bounds"], nm["c2e"], nm["e2c"]],  # type: ignore[union-attr]
         "_transform_search_space: return statement")
    return res


# ---------------------------------------------------------------------------------------------------------------
# the class: __init__, properties, transform, untransform
# ---------------------------------------------------------------------------------------------------------------
RAW = "self._raw_bounds"


def raw_col(n: ast.AST, mask: Any) -> int | None:
    """`self._raw_bounds[M, k]` -> k, where M is `:` (mask None) or the given mask node"""
    if not (isinstance(n, ast.Subscript) and dotted(n.value) == RAW and isinstance(n.slice, ast.Tuple) and len(n.slice.elts) == 2):
        return None
    m, k = n.slice.elts
    if mask is None:
        if not (isinstance(m, ast.Slice) and m.lower is None and m.upper is None and m.step is None):
            return None
    elif not same(m, mask):
        return None
    if isinstance(k, ast.Constant) and k.value in (0, 1) and not isinstance(k.value, bool):
        return int(k.value)
    return None


def col_expr(n: ast.AST, xname: str, mask: Any, consts: dict[str, Fraction]) -> str:
    """column-wise arithmetic over x / lo / hi"""
    k = raw_col(n, mask)
    if k is not None:
        return "(.var .lo)" if k == 0 else "(.var .hi)"
    if mask is None and isinstance(n, ast.Name) and n.id == xname:
        return "(.var .x)"
    if mask is not None and isinstance(n, ast.Subscript) and isinstance(n.value, ast.Name) and n.value.id == xname and same(n.slice, mask):
        return "(.var .x)"
    if isinstance(n, ast.Constant) or (isinstance(n, ast.Name) and n.id in consts):
        v = const_value(n, consts)
        need(v is not None, "literal " + src(n))
        return "(.num %s)" % rat(v)  # type: ignore[arg-type]
    if isinstance(n, ast.BinOp) and type(n.op) in ARITH:
        return "(.%s %s %s)" % (ARITH[type(n.op)], col_expr(n.left, xname, mask, consts), col_expr(n.right, xname, mask, consts))
    if isinstance(n, ast.UnaryOp) and isinstance(n.op, ast.USub):
        return "(.neg %s)" % col_expr(n.operand, xname, mask, consts)
    raise Untranslatable("0-1 scaling expression " + src(n))


def t_arm(stmts: list[ast.stmt], sc: Scope, xname: str, idx: str, pname: str) -> list[str]:
    out: list[str] = []
    ch: str | None = None
    dname = sorted(sc.dists)
    for st in stmts:
        if isinstance(st, ast.Assign) and len(st.targets) == 1:
            t, v = st.targets[0], st.value
            if isinstance(t, ast.Name) and isinstance(v, ast.Call) and dotted(v.func) == "int" and len(v.args) == 1:
                c = v.args[0]
                need(isinstance(c, ast.Call) and isinstance(c.func, ast.Attribute) and c.func.attr == "to_internal_repr"
                     and sc.is_dist(c.func.value) and len(c.args) == 1 and isinstance(c.args[0], ast.Name) and c.args[0].id == pname,
                     "choice index " + src(v))
                ch = t.id
                out.append(".choiceIdx")
                continue
            if isinstance(t, ast.Subscript) and isinstance(t.value, ast.Name) and t.value.id == xname:
                s = t.slice
                if isinstance(s, ast.Name) and s.id == idx:
                    need(isinstance(v, ast.Call) and dotted(v.func) == "_transform_numerical_param" and len(v.args) == 3 and not v.keywords
                         and isinstance(v.args[0], ast.Name) and v.args[0].id == pname and sc.is_dist(v.args[1])
                         and dotted(v.args[2]) == "self._transform_log", "numerical write " + src(v))
                    out.append(".setNum")
                    continue
                if isinstance(s, ast.BinOp) and isinstance(s.op, ast.Add) and isinstance(s.left, ast.Name) and s.left.id == idx \
                        and isinstance(s.right, ast.Name) and s.right.id == ch:
                    q = const_value(v, sc.consts)
                    need(q is not None, "one-hot value " + src(v))
                    out.append("(.setHot %s)" % rat(q))  # type: ignore[arg-type]
                    continue
        if isinstance(st, ast.AugAssign) and isinstance(st.op, ast.Add) and isinstance(st.target, ast.Name) and st.target.id == idx:
            out.append("(.advance %s)" % width(st.value, sc, set()))
            continue
        raise Untranslatable("transform, loop arm (%s): %s" % (dname, src(st)))
    return out


def transform_method(f: ast.FunctionDef, consts: dict[str, Fraction]) -> dict[str, str]:
    a = arg_names(f)
    need(a == ["self", "params"], "transform parameters %s" % a)
    body = strip_doc(f.body)
    res: dict[str, str] = {}
    st = body[0]
    need(isinstance(st, ast.Assign) and isinstance(st.targets[0], ast.Name) and isinstance(st.value, ast.Call)
         and dotted(st.value.func) == "np.zeros" and len(st.value.args) == 1 and src(st.value.args[0]) == RAW + ".shape[0]",
         "transform: initial array " + src(st))
    xname = st.targets[0].id  # type: ignore[union-attr]
    res["tInit"] = rat(Fraction(0))
    st = body[1]
    need(isinstance(st, ast.Assign) and isinstance(st.targets[0], ast.Name) and isinstance(st.value, ast.Constant) and st.value.value == 0,
         "transform: index initialisation " + src(st))
    idx = st.targets[0].id  # type: ignore[union-attr]
    loop = body[2]
    need(isinstance(loop, ast.For) and not loop.orelse and isinstance(loop.target, ast.Tuple) and len(loop.target.elts) == 2
         and all(isinstance(e, ast.Name) for e in loop.target.elts) and isinstance(loop.iter, ast.Call)
         and dotted(loop.iter.func) == "self._search_space.items", "transform loop header")
    kname, dname = (e.id for e in loop.target.elts)  # type: ignore[union-attr]
    sc = Scope({dname}, set(), consts)
    lb = list(loop.body)  # type: ignore[union-attr]
    if lb and isinstance(lb[0], ast.Assert) and not is_assert_false(lb[0]):
        lb = lb[1:]
    need(lb and isinstance(lb[0], ast.Assign) and isinstance(lb[0].targets[0], ast.Name) and src(lb[0].value) == "params[%s]" % kname,
         "transform: param lookup")
    pname = lb[0].targets[0].id  # type: ignore[union-attr]
    need(len(lb) == 2 and isinstance(lb[1], ast.If) and lb[1].orelse, "transform loop body is not `param = ...; if/else`")
    res["tCatG"] = guard(lb[1].test, sc)  # type: ignore[union-attr]
    res["tCat"] = "[" + ", ".join(t_arm(list(lb[1].body), sc, xname, idx, pname)) + "]"  # type: ignore[union-attr]
    res["tNum"] = "[" + ", ".join(t_arm(list(lb[1].orelse), sc, xname, idx, pname)) + "]"  # type: ignore[union-attr]
    blk = body[3]
    need(isinstance(blk, ast.If) and dotted(blk.test) == "self._transform_0_1" and not blk.orelse, "transform: 0-1 block")
    sb = list(blk.body)  # type: ignore[union-attr]
    need(isinstance(sb[0], ast.Assign) and isinstance(sb[0].targets[0], ast.Name), "transform: mask definition")
    mname = sb[0].targets[0].id  # type: ignore[union-attr]
    mv = sb[0].value  # type: ignore[union-attr]
    if isinstance(mv, ast.Compare) and len(mv.ops) == 1 and isinstance(mv.ops[0], ast.Eq) \
            and sorted([raw_col(mv.left, None), raw_col(mv.comparators[0], None)], key=str) == [0, 1]:
        res["tMask"] = ".eq"
    elif isinstance(mv, ast.Call) and dotted(mv.func) == "np.isclose" and len(mv.args) == 2 and not mv.keywords \
            and [raw_col(mv.args[0], None), raw_col(mv.args[1], None)] == [0, 1]:
        res["tMask"] = ".isclose"
    else:
        raise Untranslatable("transform: zero-width mask " + src(mv))
    assigns = []
    for st in sb[1:]:
        need(isinstance(st, ast.Assign) and len(st.targets) == 1 and isinstance(st.targets[0], ast.Subscript)
             and isinstance(st.targets[0].value, ast.Name) and st.targets[0].value.id == xname, "transform: 0-1 block statement " + src(st))
        m = st.targets[0].slice  # type: ignore[union-attr]
        if isinstance(m, ast.Name) and m.id == mname:
            neg = "false"
        elif isinstance(m, ast.UnaryOp) and isinstance(m.op, ast.Invert) and isinstance(m.operand, ast.Name) and m.operand.id == mname:
            neg = "true"
        else:
            raise Untranslatable("transform: mask index " + src(m))
        assigns.append("⟨%s, %s⟩" % (neg, col_expr(st.value, xname, m, consts)))  # type: ignore[union-attr]
    res["tScale"] = "[" + ", ".join(assigns) + "]"
    need(len(body) == 5 and isinstance(body[4], ast.Return) and dotted(body[4].value) == xname, "transform: return")
    return res


def view(n: ast.AST, cname: str) -> str:
    if isinstance(n, ast.Name) and n.id == cname:
        return ".cols"
    if isinstance(n, ast.Subscript) and isinstance(n.slice, ast.Slice) and n.slice.lower is None and n.slice.upper is None \
            and isinstance(n.slice.step, ast.UnaryOp) and isinstance(n.slice.step.op, ast.USub) \
            and isinstance(n.slice.step.operand, ast.Constant) and n.slice.step.operand.value == 1:
        return "(.rev %s)" % view(n.value, cname)
    raise Untranslatable("view of the columns " + src(n))


def index_expr(n: ast.AST, cname: str) -> str:
    if isinstance(n, ast.Call) and not n.keywords:
        if isinstance(n.func, ast.Attribute) and n.func.attr == "argmax" and not n.args and dotted(n.func) not in ("np.argmax",):
            return "(.argmax %s)" % view(n.func.value, cname)
        if dotted(n.func) == "np.argmax" and len(n.args) == 1:
            return "(.argmax %s)" % view(n.args[0], cname)
        if dotted(n.func) == "len" and len(n.args) == 1 and isinstance(n.args[0], ast.Name) and n.args[0].id == cname:
            return ".len"
        if dotted(n.func) == "int" and len(n.args) == 1:
            return index_expr(n.args[0], cname)
    if isinstance(n, ast.Constant) and isinstance(n.value, int) and not isinstance(n.value, bool):
        return "(.lit %d)" % n.value
    if isinstance(n, ast.BinOp) and isinstance(n.op, (ast.Add, ast.Sub)):
        return "(.%s %s %s)" % ("add" if isinstance(n.op, ast.Add) else "sub", index_expr(n.left, cname), index_expr(n.right, cname))
    raise Untranslatable("index handed to to_external_repr: " + src(n))


def untransform_method(f: ast.FunctionDef, consts: dict[str, Fraction]) -> dict[str, str]:
    a = arg_names(f)
    need(len(a) == 2 and a[0] == "self", "untransform parameters %s" % a)
    xname = a[1]
    body = strip_doc(f.body)
    res: dict[str, str] = {}
    if isinstance(body[0], ast.Assert) and not is_assert_false(body[0]):
        body = body[1:]
    blk = body[0]
    need(isinstance(blk, ast.If) and dotted(blk.test) == "self._transform_0_1" and not blk.orelse and len(blk.body) == 1
         and isinstance(blk.body[0], ast.Assign) and dotted(blk.body[0].targets[0]) == xname, "untransform: 0-1 block")
    res["uUnscale"] = col_expr(blk.body[0].value, xname, None, consts)  # type: ignore[union-attr]
    need(isinstance(body[1], ast.Assign) and isinstance(body[1].value, ast.Dict) and not body[1].value.keys, "untransform: result dict")
    oname = dotted(body[1].targets[0])  # type: ignore[union-attr]
    loop = body[2]
    need(isinstance(loop, ast.For) and not loop.orelse
         and src(loop.target) in ("((name, distribution), encoded_columns)", "(name, distribution), encoded_columns")
         and src(loop.iter) == "zip(self._search_space.items(), self.column_to_encoded_columns)", "untransform loop header: " + src(loop)[:120])
    sc = Scope({"distribution"}, set(), consts)
    lb = list(loop.body)  # type: ignore[union-attr]
    need(len(lb) == 3 and isinstance(lb[0], ast.Assign) and isinstance(lb[0].targets[0], ast.Name)
         and src(lb[0].value) == "%s[encoded_columns]" % xname, "untransform: column selection")
    cname = lb[0].targets[0].id  # type: ignore[union-attr]
    br = lb[1]
    need(isinstance(br, ast.If) and len(br.body) == 1 and len(br.orelse) == 1 and isinstance(br.body[0], ast.Assign)
         and isinstance(br.orelse[0], ast.Assign) and dotted(br.body[0].targets[0]) == dotted(br.orelse[0].targets[0]),
         "untransform: the if/else of one parameter")
    pname = dotted(br.body[0].targets[0])  # type: ignore[union-attr]
    res["uCatG"] = guard(br.test, sc)  # type: ignore[union-attr]
    cv = br.body[0].value  # type: ignore[union-attr]
    need(isinstance(cv, ast.Call) and isinstance(cv.func, ast.Attribute) and cv.func.attr == "to_external_repr"
         and sc.is_dist(cv.func.value) and len(cv.args) == 1 and not cv.keywords, "untransform: categorical arm " + src(cv))
    res["uCat"] = index_expr(cv.args[0], cname)
    nv = br.orelse[0].value  # type: ignore[union-attr]
    need(isinstance(nv, ast.Call) and dotted(nv.func) == "_untransform_numerical_param" and len(nv.args) == 3 and not nv.keywords
         and src(nv.args[0]) == "%s.item()" % cname and sc.is_dist(nv.args[1]) and dotted(nv.args[2]) == "self._transform_log",
         "untransform: numerical arm " + src(nv))
    need(src(lb[2]) == "%s[name] = %s" % (oname, pname), "untransform: store " + src(lb[2]))
    need(len(body) == 4 and isinstance(body[3], ast.Return) and dotted(body[3].value) == oname, "untransform: return")
    return res


def glue(cls: ast.ClassDef, consts: dict[str, Fraction]) -> dict[str, str]:
    res: dict[str, str] = {}
    init = fn_named(cls.body, "__init__")
    a = arg_names(init)
    need(a == ["self", "search_space", "transform_log", "transform_step", "transform_0_1"], "__init__ parameters %s" % a)
    got = sorted(src(st) for st in strip_doc(init.body))
    # tuple-unpack names are free; normalise them through the call statement
    call = [st for st in strip_doc(init.body) if isinstance(st, ast.Assign) and isinstance(st.value, ast.Call)
            and dotted(st.value.func) == "_transform_search_space"]
    need(len(call) == 1 and isinstance(call[0].targets[0], ast.Tuple) and len(call[0].targets[0].elts) == 3
         and [dotted(x) for x in call[0].value.args] == ["search_space", "transform_log", "transform_step"] and not call[0].value.keywords,  # type: ignore[union-attr]
         "__init__: call of _transform_search_space")
    b, c2e, e2c = (dotted(e) for e in call[0].targets[0].elts)  # type: ignore[union-attr]
    want = sorted([src(call[0]), "self._raw_bounds = %s" % b, "self._column_to_encoded_columns = %s" % c2e,
                   "self._encoded_column_to_column = %s" % e2c, "self._search_space = search_space",
                   "self._transform_log = transform_log", "self._transform_0_1 = transform_0_1"])
    need(got == want, "__init__ is not the modelled glue: %s" % [g for g in got if g not in want])
    # properties
    p = fn_named(cls.body, "column_to_encoded_columns")
    need([src(s) for s in strip_doc(p.body)] == ["return self._column_to_encoded_columns"], "property column_to_encoded_columns")
    p = fn_named(cls.body, "bounds")
    pb = strip_doc(p.body)
    need(len(pb) == 1 and isinstance(pb[0], ast.If) and dotted(pb[0].test) == "self._transform_0_1" and len(pb[0].body) == 1
         and len(pb[0].orelse) == 1 and src(pb[0].orelse[0]) == "return self._raw_bounds" and isinstance(pb[0].body[0], ast.Return),
         "property bounds")
    rv = pb[0].body[0].value  # type: ignore[union-attr]
    need(isinstance(rv, ast.Call) and dotted(rv.func) == "np.array" and len(rv.args) == 1 and isinstance(rv.args[0], ast.BinOp)
         and isinstance(rv.args[0].op, ast.Mult) and src(rv.args[0].right) == RAW + ".shape[0]"
         and isinstance(rv.args[0].left, ast.List) and len(rv.args[0].left.elts) == 1
         and isinstance(rv.args[0].left.elts[0], ast.List) and len(rv.args[0].left.elts[0].elts) == 2, "property bounds: unit rows " + src(rv))
    lo, hi = (const_value(e, consts) for e in rv.args[0].left.elts[0].elts)  # type: ignore[union-attr]
    need(lo is not None and hi is not None, "property bounds: unit rows")
    res["unitLo"], res["unitHi"] = rat(lo), rat(hi)  # type: ignore[arg-type]
    return res


# ---------------------------------------------------------------------------------------------------------------
FIELDS = ["tnum", "unum", "nbG", "nbThen", "nbElse", "ssCatG", "ssNumG", "ssCat", "ssBds", "ssNum", "tInit", "tCatG", "tCat", "tNum",
          "tMask", "tScale", "uUnscale", "uCatG", "uCat", "unitLo", "unitHi"]


def translate(repo: str) -> tuple[str, dict[str, Any]]:
    path = os.path.join(repo, SOURCE_REL)
    text = open(path).read()
    mod = ast.parse(text)
    consts: dict[str, Fraction] = {}
    for st in mod.body:
        if isinstance(st, ast.Assign) and len(st.targets) == 1 and isinstance(st.targets[0], ast.Name):
            v = const_value(st.value, consts)
            if v is not None:
                consts[st.targets[0].id] = v
    cls = [n for n in mod.body if isinstance(n, ast.ClassDef) and n.name == "_SearchSpaceTransform"]
    need(len(cls) == 1, "class _SearchSpaceTransform not found")
    f: dict[str, str] = {}
    f["tnum"] = numeric_fn(fn_named(mod.body, "_transform_numerical_param"), consts)
    f["unum"] = numeric_fn(fn_named(mod.body, "_untransform_numerical_param"), consts)
    f.update(search_space_fn(fn_named(mod.body, "_transform_search_space"), consts))
    f.update(transform_method(fn_named(cls[0].body, "transform"), consts))
    f.update(untransform_method(fn_named(cls[0].body, "untransform"), consts))
    f.update(glue(cls[0], consts))
    need(sorted(f) == sorted(FIELDS), "internal: fields %s" % sorted(set(FIELDS) ^ set(f)))
    L = ["-- generated by verif/translators/ttransform.py from optuna/_transform.py; do not edit",
         "import OptunaVerif.Model.TransformIR",
         "namespace OptunaVerif.Generated.TransformGen",
         "open OptunaVerif.TransformIR",
         ""]
    tys = {"tnum": "T X", "unum": "T X", "ssBds": "T (X × X)"}
    for k in ("tnum", "unum", "ssBds"):
        L.append("def %s : %s := %s" % (k, tys[k], f[k]))
    L.append("")
    L.append("def prog : Prog where")
    for k in FIELDS:
        L.append("  %s := %s" % (k, k if k in tys else f[k]))
    L += ["", "end OptunaVerif.Generated.TransformGen", ""]
    info = {"fields": {k: f[k] for k in FIELDS}, "module_constants": {k: str(v) for k, v in consts.items()},
            "sha1_of_source": hashlib.sha1(text.encode()).hexdigest()[:16],
            "leaves": {"tnum": f["tnum"].count(".ret"), "unum": f["unum"].count(".ret"), "ssBds": f["ssBds"].count(".ret")}}
    return "\n".join(L), info
