"""T-int style translation of the control skeleton of `WilcoxonPruner.prune` (optuna/pruners/_wilcoxon.py).

Reads the method with `ast` from `core.REPO` on every run and writes lean/OptunaVerif/Generated/WilcoxonSkel.lean:

  pruneSkel   the whole control flow of `prune` as a Lean function of integer / boolean ATOMS
              (len(trial.intermediate_values), "some current value is not finite", "study.best_trial raised",
              len(best_trial.intermediate_values), ..., len(idx1), len(step_values), len(diff_values), n_startup_steps,
              "direction is MAXIMIZE", the two mean comparisons, "p < p_threshold"), returning
              (decision, warnings issued, index of the `return` statement in source order);
  altSkel     the `alt` string by direction;
  dataStatements  every other statement (array construction, intersect1d, the subtraction, the scipy call), verbatim,
              pinned by a `decide`d theorem: their MEANING is the hand model's business (Model/Wilcoxon.lean, tied by the
              correspondence), their TEXT cannot change unnoticed.

Whitelist.  Statements: `if TEST: [warnings.warn(...)] return CONST`, `if TEST: warnings.warn(...)`, the pinned
`try: best_trial = study.best_trial / except ValueError: return False`, plain assignments (data), the direction `if/else`
assigning `alt` and `average_is_best`, `return p < self._p_threshold`.  Tests: comparisons of the integer atoms
(`len(...)`, `self._n_startup_steps`, int constants, `max(a, b)`), the boolean atoms, `and`.  Anything else raises
Untranslatable -> chk.broke("translation").  Props/C16WilcoxonGen.lean proves the generated skeleton equal to the hand
model's `prune` for all inputs, so an edit of the source that changes a guard, their order, a returned constant, a warning
or the direction handling breaks a proof (or the translation).
"""
from __future__ import annotations

import ast
import os
from typing import Any

from verif import core

GEN_PATH = os.path.join(core.LEAN_DIR, "OptunaVerif", "Generated", "WilcoxonSkel.lean")


class Untranslatable(Exception):
    pass


INT_ATOMS = {
    "len(trial.intermediate_values)": "len_trial_iv",
    "len(best_trial.intermediate_values)": "len_best_iv",
    "len(idx1)": "len_idx1",
    "len(step_values)": "len_step_values",
    "len(diff_values)": "len_diff_values",
    "self._n_startup_steps": "n_startup_steps",
}
BOOL_ATOMS = {
    "np.any(~np.isfinite(step_values))": "cur_nonfinite",
    "np.any(~np.isfinite(best_step_values))": "best_nonfinite",
    "p < self._p_threshold": "p_lt_thr",
    "study.direction == StudyDirection.MAXIMIZE": "is_maximize",
    "sum(best_step_values) / len(best_step_values) <= sum(step_values) / len(step_values)": "avg_best_le_cur",
    "sum(best_step_values) / len(best_step_values) >= sum(step_values) / len(step_values)": "avg_best_ge_cur",
}
PARAMS = [("len_trial_iv", "Int"), ("cur_nonfinite", "Bool"), ("best_raises", "Bool"), ("len_best_iv", "Int"),
          ("best_nonfinite", "Bool"), ("len_idx1", "Int"), ("len_step_values", "Int"), ("len_diff_values", "Int"),
          ("n_startup_steps", "Int"), ("is_maximize", "Bool"), ("avg_best_le_cur", "Bool"), ("avg_best_ge_cur", "Bool"),
          ("p_lt_thr", "Bool")]
WARN_TAGS = [
    ("intermediate values of the current trial", "curNotFinite"),
    ("best trial has no intermediate values", "bestNoReports"),
    ("intermediate values of the best trial", "bestNotFinite"),
    ("steps existing in the current trial", "missingSteps"),
]
CMP = {ast.Lt: "<", ast.LtE: "≤", ast.Gt: ">", ast.GtE: "≥", ast.Eq: "=", ast.NotEq: "≠"}
TRY_BODY = "best_trial = study.best_trial"


def norm(node: ast.AST) -> str:
    return " ".join(ast.unparse(node).split())


def iexpr(node: ast.AST) -> str:
    key = norm(node)
    if key in INT_ATOMS:
        return INT_ATOMS[key]
    if isinstance(node, ast.Constant) and isinstance(node.value, int) and not isinstance(node.value, bool):
        return "(%d : Int)" % node.value
    if isinstance(node, ast.Call) and isinstance(node.func, ast.Name) and node.func.id == "max" and len(node.args) == 2 and not node.keywords:
        return "(max %s %s)" % (iexpr(node.args[0]), iexpr(node.args[1]))
    raise Untranslatable("integer expression `%s`" % key)


def bexpr(node: ast.AST, bools: set[str]) -> str:
    key = norm(node)
    if key in BOOL_ATOMS:
        return BOOL_ATOMS[key]
    if isinstance(node, ast.Name) and node.id in bools:
        return node.id
    if isinstance(node, ast.BoolOp):
        op = " && " if isinstance(node.op, ast.And) else " || "
        return "(" + op.join(bexpr(v, bools) for v in node.values) + ")"
    if isinstance(node, ast.UnaryOp) and isinstance(node.op, ast.Not):
        return "(!%s)" % bexpr(node.operand, bools)
    if isinstance(node, ast.Compare) and len(node.ops) == 1 and type(node.ops[0]) in CMP:
        return "decide (%s %s %s)" % (iexpr(node.left), CMP[type(node.ops[0])], iexpr(node.comparators[0]))
    raise Untranslatable("condition `%s`" % key)


def warn_tag(call: ast.Call) -> str:
    text = "".join(p.value for p in ast.walk(call) if isinstance(p, ast.Constant) and isinstance(p.value, str))
    for key, tag in WARN_TAGS:
        if key in text:
            return tag
    raise Untranslatable("unknown warning text `%s`" % text[:80])


def is_warn(s: ast.stmt) -> bool:
    return isinstance(s, ast.Expr) and isinstance(s.value, ast.Call) and norm(s.value.func) == "warnings.warn"


class Skel:
    def __init__(self) -> None:
        self.exits = 0
        self.data: list[str] = []
        self.bools: set[str] = set()
        self.alt: dict[bool, str] = {}

    def const(self, node: ast.AST | None) -> str:
        if isinstance(node, ast.Constant) and isinstance(node.value, bool):
            return "true" if node.value else "false"
        raise Untranslatable("returned value `%s`" % (norm(node) if node is not None else None))

    def ret(self, value: str) -> str:
        k = self.exits
        self.exits += 1
        return "(%s, warns, %d)" % (value, k)

    def block(self, stmts: list[ast.stmt], ind: str) -> str:
        if not stmts:
            raise Untranslatable("control reaches the end of prune without return")
        s, rest = stmts[0], stmts[1:]
        if isinstance(s, ast.Expr) and isinstance(s.value, ast.Constant) and isinstance(s.value.value, str):
            return self.block(rest, ind)
        if isinstance(s, ast.Return):
            if rest:
                raise Untranslatable("statements after return")
            if s.value is not None and norm(s.value) in BOOL_ATOMS:
                return ind + self.ret(BOOL_ATOMS[norm(s.value)])
            return ind + self.ret(self.const(s.value))
        if isinstance(s, ast.Try):
            if not (len(s.body) == 1 and norm(s.body[0]) == TRY_BODY and len(s.handlers) == 1 and not s.orelse and not s.finalbody
                    and s.handlers[0].type is not None and norm(s.handlers[0].type) == "ValueError"
                    and len(s.handlers[0].body) == 1 and isinstance(s.handlers[0].body[0], ast.Return)):
                raise Untranslatable("try statement `%s`" % norm(s)[:120])
            self.data.append("try: %s except ValueError: return %s" % (TRY_BODY, norm(s.handlers[0].body[0].value)))
            r = self.ret(self.const(s.handlers[0].body[0].value))
            return "%sif best_raises then %s else\n%s" % (ind, r, self.block(rest, ind))
        if isinstance(s, ast.Assign):
            self.data.append(norm(s))
            return self.block(rest, ind)
        if isinstance(s, ast.If):
            # the direction branch
            if norm(s.test) == "study.direction == StudyDirection.MAXIMIZE":
                th, el = self.direction_branch(s.body), self.direction_branch(s.orelse)
                if set(th) != {"alt", "average_is_best"} or set(el) != {"alt", "average_is_best"}:
                    raise Untranslatable("direction branch assigns %s / %s" % (sorted(th), sorted(el)))
                self.alt = {True: th["alt"], False: el["alt"]}
                self.bools.add("average_is_best")
                line = "%slet average_is_best : Bool := if is_maximize then %s else %s" % (ind, th["average_is_best"], el["average_is_best"])
                return line + "\n" + self.block(rest, ind)
            if s.orelse:
                raise Untranslatable("if/else `%s`" % norm(s.test))
            test = bexpr(s.test, self.bools)
            body = list(s.body)
            tags = []
            while body and is_warn(body[0]):
                tags.append(warn_tag(body[0].value))  # type: ignore[attr-defined]
                body = body[1:]
            add = "".join(' ++ ["%s"]' % t for t in tags)
            if not body:  # warning only
                if not tags:
                    raise Untranslatable("empty if body")
                return "%slet warns : List String := if %s then warns%s else warns\n%s" % (ind, test, add, self.block(rest, ind))
            if len(body) == 1 and isinstance(body[0], ast.Return):
                k = self.exits
                self.exits += 1
                return "%sif %s then (%s, warns%s, %d) else\n%s" % (ind, test, self.const(body[0].value), add, k, self.block(rest, ind))
            raise Untranslatable("if body `%s`" % norm(body[0])[:80])
        raise Untranslatable("statement `%s`" % norm(s)[:100])

    def direction_branch(self, body: list[ast.stmt]) -> dict[str, str]:
        out: dict[str, str] = {}
        for s in body:
            if not (isinstance(s, ast.Assign) and len(s.targets) == 1 and isinstance(s.targets[0], ast.Name)):
                raise Untranslatable("direction branch statement `%s`" % norm(s)[:80])
            name = s.targets[0].id
            if name == "alt":
                if not (isinstance(s.value, ast.Constant) and isinstance(s.value.value, str)):
                    raise Untranslatable("alt = `%s`" % norm(s.value))
                out["alt"] = s.value.value
            elif name == "average_is_best":
                key = norm(s.value)
                if key not in BOOL_ATOMS:
                    raise Untranslatable("average_is_best = `%s`" % key)
                out["average_is_best"] = BOOL_ATOMS[key]
            else:
                raise Untranslatable("direction branch assigns `%s`" % name)
        return out


def lean_str(s: str) -> str:
    return '"' + s.replace("\\", "\\\\").replace('"', '\\"') + '"'


def generate() -> str:
    path = os.path.join(core.REPO, "optuna", "pruners", "_wilcoxon.py")
    with open(path) as f:
        mod = ast.parse(f.read(), filename=path)
    fn = None
    for n in mod.body:
        if isinstance(n, ast.ClassDef) and n.name == "WilcoxonPruner":
            for m in n.body:
                if isinstance(m, ast.FunctionDef) and m.name == "prune":
                    fn = m
    if fn is None:
        raise Untranslatable("WilcoxonPruner.prune not found")
    if [a.arg for a in fn.args.args] != ["self", "study", "trial"]:
        raise Untranslatable("prune parameters %s" % [a.arg for a in fn.args.args])
    sk = Skel()
    body = sk.block(list(fn.body), "  ")
    sig = " ".join("(%s : %s)" % p for p in PARAMS)
    out = [
        "-- generated by verif/translators/wilcoxon_skel.py from optuna/pruners/_wilcoxon.py; do not edit",
        "/-! Control skeleton of `WilcoxonPruner.prune`, regenerated from the Python source on every run (C16 / C13).",
        "Atoms are parameters; the result is (decision, warnings issued, index of the `return` statement in source order). -/",
        "set_option linter.unusedVariables false",
        "namespace OptunaVerif.Generated.WilcoxonSkel",
        "",
        "def pruneSkel %s : Bool × List String × Nat :=" % sig,
        "  let warns : List String := []",
        body,
        "",
        "/-- `alt` by direction -/",
        "def altSkel (is_maximize : Bool) : String := if is_maximize then %s else %s" % (lean_str(sk.alt.get(True, "?")), lean_str(sk.alt.get(False, "?"))),
        "",
        "/-- number of `return` statements -/",
        "def nExits : Nat := %d" % sk.exits,
        "",
        "/-- the statements that are data, not control (verbatim, in source order) -/",
        "def dataStatements : List String := [",
        ",\n".join("  " + lean_str(d) for d in sk.data),
        "]",
        "",
        "end OptunaVerif.Generated.WilcoxonSkel",
        "",
    ]
    return "\n".join(out)


def regenerate(chk: Any) -> None:
    try:
        text = generate()
    except Untranslatable as e:
        chk.broke("translation", {"translator": "wilcoxon_skel", "why": str(e)})
        return
    except (OSError, SyntaxError) as e:
        chk.broke("translation", {"translator": "wilcoxon_skel", "why": "%s: %s" % (type(e).__name__, e)})
        return
    changed = core.write_if_changed(GEN_PATH, text)
    chk.translated += ["optuna/pruners/_wilcoxon.py::WilcoxonPruner.prune control skeleton (guards, warnings, returns, direction branch) + pinned data statements"]
    chk.extra["wilcoxon_skel_changed_this_run"] = bool(changed)


if __name__ == "__main__":
    print(generate())
